"""Independent reference interpreter for Bob's string substitution language,
written from doc/manual/configuration.rst ("String substitution", "Boolean
properties") -- not from pym/bob/stringparser.py.

Two phases (the implementation interleaves them): 1. parse the whole text into a
tree (every syntax error is an error, also in branches that are never taken);
2. evaluate lazily (untaken default/alternate branches are not evaluated, so
unset variables / unknown functions there do not fail).

Outcomes:  ('val', str) | ('err',) | ('dontcare',)
'dontcare' marks input whose meaning the documentation does not define
(`${v:}`, $(subst) with empty pattern, regex functions, booleans with
surrounding white space); any non-internal behaviour is accepted there.
"""

NAME_START = 'ABCDEFGHIJKLMNOPQRSTUVWXYZ_abcdefghijklmnopqrstuvwxyz'
NAME_CHARS = NAME_START + '0123456789'


class RefError(Exception):
    pass


class DontCare(Exception):
    pass


# ---------------------------------------------------------------- parsing ----
class _P:
    def __init__(self, text):
        self.t = text
        self.i = 0
        self.n = len(text)

    def peek(self):
        if self.i >= self.n:
            return None
        return self.t[self.i]

    def next(self):
        if self.i >= self.n:
            raise RefError('unexpected end')
        c = self.t[self.i]
        self.i += 1
        return c

    def string(self, delims, eos_ok):
        """sequence of items up to (not including) an unquoted, unescaped member of
        `delims`; returns (nodes, stop char or None)"""
        nodes = []
        lit = []

        def flush():
            if lit:
                nodes.append(('lit', ''.join(lit)))
                del lit[:]
        while True:
            c = self.peek()
            if c is None:
                if not eos_ok:
                    raise RefError('unexpected end of string')
                flush()
                return nodes, None
            if c in delims:
                flush()
                return nodes, c
            self.i += 1
            if c == '\\':
                lit.append(self.next())          # literal, never a delimiter
            elif c == "'":
                start = self.i
                while True:
                    d = self.next()              # RefError when unterminated
                    if d == "'":
                        break
                lit.append(self.t[start:self.i - 1])
            elif c == '"':
                flush()
                inner, stop = self.string('"', False)
                self.i += 1                      # closing quote
                nodes.append(('dq', inner))
            elif c == '$':
                flush()
                d = self.next()
                if d == '{':
                    nodes.append(self.variable())
                elif d == '(':
                    nodes.append(self.command())
                elif d in NAME_START:
                    start = self.i - 1
                    while self.i < self.n and self.t[self.i] in NAME_CHARS:
                        self.i += 1
                    nodes.append(('bare', self.t[start:self.i]))
                else:
                    raise RefError('invalid $ substitution')
            else:
                lit.append(c)

    def variable(self):
        name, stop = self.string(':-+}', False)
        op = self.next()
        colon = False
        if op == ':':
            colon = True
            op = self.next()
        if op == '-' or op == '+':
            arg, stop = self.string('}', False)
            self.i += 1
            return ('var', name, op, colon, arg)
        elif op == '}':
            return ('var', name, '}', colon, None)
        else:
            raise RefError('unterminated variable')

    def command(self):
        words = []
        while True:
            w, stop = self.string(',)', False)
            words.append(w)
            self.i += 1
            if stop == ')':
                return ('cmd', words)


# ------------------------------------------------------------- evaluation ----
def is_false(val):
    """documented: empty string, "0" and "false" (case insensitive) are false"""
    s = val.strip()
    low = s.lower()
    falsy = (low == '' or low == '0' or low == 'false')
    if falsy and s != val:
        raise DontCare()     # white space around a boolean is not documented
    return falsy


class Ctx:
    def __init__(self, env, nounset=True, sandbox=False, tools=None):
        self.env = env            # dict name -> str
        self.nounset = nounset
        self.sandbox = sandbox
        self.tools = tools or {}  # name -> dict of tool environment


def _tf(b):
    return 'true' if b else 'false'


def call(ctx, name, args):
    n = len(args)
    if name == 'eq':
        if n != 2: raise RefError('eq')
        return _tf(args[0] == args[1])
    if name == 'ne':
        if n != 2: raise RefError('ne')
        return _tf(args[0] != args[1])
    if name == 'not':
        if n != 1: raise RefError('not')
        return _tf(is_false(args[0]))
    if name == 'or':
        r = False
        for a in args:
            if not is_false(a):
                r = True
                break
        return _tf(r)
    if name == 'and':
        r = True
        for a in args:
            if is_false(a):
                r = False
                break
        return _tf(r)
    if name == 'if-then-else':
        if n != 3: raise RefError('ite')
        return args[2] if is_false(args[0]) else args[1]
    if name == 'strip':
        if n != 1: raise RefError('strip')
        return args[0].strip()
    if name == 'subst':
        if n != 3: raise RefError('subst')
        if args[0] == '':
            raise DontCare()
        return args[1].join(args[2].split(args[0]))
    if name == 'is-sandbox-enabled':
        if n != 0: raise RefError('sandbox')
        return _tf(ctx.sandbox)
    if name == 'is-tool-defined':
        if n != 1: raise RefError('tool')
        return _tf(args[0] in ctx.tools)
    if name == 'get-tool-env':
        if n != 2 and n != 3: raise RefError('toolenv')
        if args[0] not in ctx.tools: raise RefError('no tool')
        e = ctx.tools[args[0]]
        if args[1] in e:
            return e[args[1]]
        if n == 3:
            return args[2]
        raise RefError('no var')
    if name in ('match', 'matchScm', 'resubst'):
        raise DontCare()          # regular expressions: outside the claim
    raise RefError('unknown function')


def ev(ctx, nodes, active):
    out = []
    for nd in nodes:
        k = nd[0]
        if k == 'lit':
            out.append(nd[1])
        elif k == 'dq':
            out.append(ev(ctx, nd[1], active))
        elif k == 'bare':
            if active:
                if nd[1] in ctx.env:
                    out.append(ctx.env[nd[1]])
                elif ctx.nounset:
                    raise RefError('unset ' + nd[1])
        elif k == 'var':
            _, nm, op, colon, arg = nd
            name = ev(ctx, nm, active)
            if not active:
                if arg is not None:
                    ev(ctx, arg, False)
                continue
            unset = name not in ctx.env
            if colon and not unset:
                unset = ctx.env[name] == ''
            if op == '-':
                d = ev(ctx, arg, unset)
                out.append(d if unset else ctx.env[name])
            elif op == '+':
                a = ev(ctx, arg, not unset)
                out.append('' if unset else a)
            else:
                if colon:
                    raise DontCare()      # `${v:}` is not documented
                if name in ctx.env:
                    out.append(ctx.env[name])
                elif ctx.nounset:
                    raise RefError('unset ' + name)
        elif k == 'cmd':
            words = [ev(ctx, w, active) for w in nd[1]]
            if active:
                out.append(call(ctx, words[0], words[1:]))
    return ''.join(out)


def ref_subst(text, ctx):
    """-> ('val', s) | ('err',) | ('dontcare',)"""
    try:
        nodes, _ = _P(text).string('', True)
    except RefError:
        return ('err',)
    try:
        return ('val', ev(ctx, nodes, True))
    except RefError:
        return ('err',)
    except DontCare:
        return ('dontcare',)

"""Frozen specification of the Variant-Id byte format (independent encoder).

Written once from the format that existing projects' ids were computed with; any
byte-level change of the real digest functions changes every recorded id of every
project and is therefore a violation of the stability half of C03.

  recipes := 00*20                                   (historic sandbox slot)
             u32(len(script)) script | 00000000      (no script)
             u32(#tools) { id[0:20] u32(len path) u32(#libs) path { u32(len lib) lib } }   tools by name
             u32(#vars)  { u32(len key) u32(len val) key val }                             vars by key
             u32(#valid args) { id[0:20] }
  host    := [ sandbox id (all bytes) if fingerprinted and sandbox ] { id[20:] of valid args }
  id      := sha1(recipes) [ sha1(host) if host != "" ]          (u32 little endian)
"""
import hashlib
import struct

import z3

from lib.zsym import SymBytes, SymStr, SymStruct, PreImage, const_term


def _sb(x):
    if isinstance(x, SymBytes):
        return x
    if isinstance(x, SymStr):
        return x.encode()
    if isinstance(x, str):
        x = x.encode('latin-1')
    return SymBytes(const_term(x), len(x))


def _u32(n):
    return SymStruct.pack('<I', n)


def _cat(parts):
    out = _sb(b'')
    for p in parts:
        out = out + _sb(p)
    return out


def variant_preimage(shape, inp):
    parts = [b'\x00' * 20]
    if inp['script'] is not None:
        parts += [_u32(inp['script'].length), inp['script']]
    else:
        parts += [b'\x00\x00\x00\x00']
    tools = sorted(inp['tools'], key=lambda t: t[0])
    parts.append(_u32(len(tools)))
    for (name, tid, path, libs) in tools:
        parts += [tid[0:20], _u32(path.length), _u32(len(libs)), path]
        for l in libs:
            parts += [_u32(l.length), l]
    env = inp['env']
    if all(isinstance(k, str) for k, _ in env):
        env = sorted(env, key=lambda kv: kv[0])
    parts.append(_u32(len(env)))
    for (k, v) in env:
        kk = _sb(k) if not isinstance(k, SymStr) else k.encode()
        parts += [_u32(kk.length), _u32(v.length), kk, v]
    valid = [d for (ok, d) in inp['args'] if ok]
    parts.append(_u32(len(valid)))
    for d in valid:
        parts.append(d[0:20])
    host = []
    if shape.fp and inp['sandbox'] is not None:
        host.append(inp['sandbox'])
    for d in valid:
        host.append(d[20:])
    pres = [_cat(parts)]
    h = _cat(host)
    if h.length != 0:
        pres.append(h)
    return PreImage(pres)


def variant_id_concrete(shape, c):
    r = bytearray(b'\x00' * 20)
    if c['script'] is not None:
        s = c['script'].encode('latin-1')
        r += struct.pack('<I', len(s)) + s
    else:
        r += b'\x00\x00\x00\x00'
    tools = sorted(c['tools'], key=lambda t: t[0])
    r += struct.pack('<I', len(tools))
    for (name, tid, path, libs) in tools:
        r += tid[:20] + struct.pack('<II', len(path), len(libs)) + path.encode('latin-1')
        for l in libs:
            r += struct.pack('<I', len(l)) + l.encode('latin-1')
    env = sorted(c['env'])
    r += struct.pack('<I', len(env))
    for k, v in env:
        r += struct.pack('<II', len(k), len(v)) + (k + v).encode('latin-1')
    valid = [d for ok, d in c['args'] if ok]
    r += struct.pack('<I', len(valid))
    host = bytearray()
    if shape.fp and c['sandbox'] is not None:
        host += c['sandbox']
    for d in valid:
        r += d[:20]
        host += d[20:]
    out = hashlib.sha1(bytes(r)).digest()
    if host:
        out += hashlib.sha1(bytes(host)).digest()
    return out

"""Reference semantics of Bob path queries (doc/manpages/bobpaths.rst), forward,
per context package, on an explicit graph -- independent of bob/pathspec.py.

Graph: nodes 0..n-1 (0 = virtual root), edges {(i, j): 'd' | 'i'} (direct / provided),
names[i], env[i] = {variable: value}.

Query (tuple form, rendered to text by `render`):
  path  = (absolute, [step, ...])
  step  = (axis, test, pred | None)
  pred  = ('path', path) | ('cmp', op, sexpr, sexpr) | ('and', p, q) | ('or', p, q)
        | ('not', p) | ('str', sexpr)
  sexpr = ('var', name) | ('lit', text)
"""
from fnmatch import fnmatchcase

AXES = ('child', 'descendant', 'descendant-or-self', 'direct-child', 'direct-descendant',
        'direct-descendant-or-self', 'self')


class Graph:
    def __init__(self, names, edges, env):
        self.names, self.edges, self.env = names, edges, env
        self.n = len(names)

    def children(self, i, direct_only):
        return [j for (a, j), k in self.edges.items() if a == i and (k == 'd' or not direct_only)]

    def descendants(self, i, direct_only):
        seen, todo = set(), [i]
        while todo:
            x = todo.pop()
            for j in self.children(x, direct_only):
                if j not in seen:
                    seen.add(j)
                    todo.append(j)
        return seen


def axis_nodes(g, i, axis):
    if axis == 'self':
        return {i}
    direct = axis.startswith('direct-')
    base = axis[7:] if direct else axis
    if base == 'child':
        return set(g.children(i, direct))
    if base == 'descendant':
        return g.descendants(i, direct)
    if base == 'descendant-or-self':
        return g.descendants(i, direct) | {i}
    raise ValueError(axis)


def name_ok(g, j, test):
    if test == '*':
        return True
    if '*' in test:
        return fnmatchcase(g.names[j], test)
    return g.names[j] == test


def is_false(s):
    return s.strip().lower() in ('', '0', 'false')


def sval(g, i, e):
    if e[0] == 'lit':
        return e[1]
    return g.env[i].get(e[1], '')        # unset variables expand to the empty string


def pred_holds(g, i, p):
    k = p[0]
    if k == 'path':
        return bool(eval_path(g, i, p[1]))
    if k == 'cmp':
        l, r = sval(g, i, p[2]), sval(g, i, p[3])
        return {'==': l == r, '!=': l != r, '<': l < r, '<=': l <= r, '>': l > r, '>=': l >= r}[p[1]]
    if k == 'and':
        return pred_holds(g, i, p[1]) and pred_holds(g, i, p[2])
    if k == 'or':
        return pred_holds(g, i, p[1]) or pred_holds(g, i, p[2])
    if k == 'not':
        return not pred_holds(g, i, p[1])
    if k == 'str':
        return not is_false(sval(g, i, p[1]))
    raise ValueError(k)


def eval_step(g, ctx, step):
    axis, test, pred = step
    out = set()
    for i in ctx:
        for j in axis_nodes(g, i, axis):
            if name_ok(g, j, test) and (pred is None or pred_holds(g, j, pred)):
                out.add(j)
    return out


def eval_path(g, i, path):
    absolute, steps = path
    ctx = {0} if absolute else {i}
    for s in steps:
        ctx = eval_step(g, ctx, s)
    return ctx


def step_sets(g, path):
    """context sets after each step of a top-level query (evaluated from the root)"""
    ctx = {0}
    out = []
    for s in path[1]:
        ctx = eval_step(g, ctx, s)
        out.append(set(ctx))
    return out


# ------------------------------------------------------------- rendering ----
def render_sexpr(e):
    if e[0] == 'lit':
        return "'%s'" % e[1]
    return '"${%s}"' % e[1]


def render_pred(p, top=True):
    k = p[0]
    if k == 'path':
        return render(p[1])
    if k == 'cmp':
        return '%s %s %s' % (render_sexpr(p[2]), p[1], render_sexpr(p[3]))
    if k == 'and':
        return '(%s) && (%s)' % (render_pred(p[1]), render_pred(p[2]))
    if k == 'or':
        return '(%s) || (%s)' % (render_pred(p[1]), render_pred(p[2]))
    if k == 'not':
        return '!(%s)' % render_pred(p[1])
    if k == 'str':
        return render_sexpr(p[1])
    raise ValueError(k)


def render_step(s):
    axis, test, pred = s
    t = '%s@%s' % (axis, test)
    if pred is not None:
        t += '[%s]' % render_pred(pred)
    return t


def render(path):
    absolute, steps = path
    return ('/' if absolute else '') + '/'.join(render_step(s) for s in steps)


def step_complex(step):
    """a step is "complex" if it can legitimately match nothing: wildcard test, predicate, or a multi-hop axis"""
    axis, test, pred = step
    if axis == 'self' and test == '*' and pred is None:
        return False             # the identity step ("."), dropped by the parser
    return '*' in test or pred is not None or 'descendant' in axis


def missing_is_error(g, path):
    """documented empty-result rule of the default mode (nullglob): the query is an error ("package not found") iff the
    context becomes empty at a step up to which every step (itself included) was a plain name"""
    ctx = {0}
    plain = True
    for s in path[1]:
        plain = plain and not step_complex(s)
        ctx = eval_step(g, ctx, s)
        if not ctx:
            return plain
    return False


def is_simple(path):
    """a query without wildcards, predicates and multi-hop axes names one package per step:
    when it finds nothing the package "does not exist" (error in nullglob mode)"""
    for (axis, test, pred) in path[1]:
        if '*' in test or pred is not None or 'descendant' in axis:
            return False
    return True

"""Re-execute a recorded counterexample WITHOUT any symbolic machinery.

  python -m lib.replay replay/C17-1.json

1. the harness function is called with the concrete arguments under plain CPython
   (real Bob code from $VERIF_REPO/pym, harness stubs as in the symbolic run);
2. if the harness offers `replay_real(fn, shard, args)`, the counterexample is
   additionally replayed in a real environment (real files / asyncio / bash ...).
Prints `REPLAY reproduced=<bool> real=<bool|None> detail=...`; exit 0 reproduced,
3 not reproduced.
"""
import base64
import json
import pickle
import sys
import traceback

from lib import V
from lib.xworker import load_module


def plain_call(rec):
    mod = load_module(rec['module'])
    V.MODE = 'check'
    V.SHARD = rec.get('shard')
    V.PARAMS = rec.get('params') or {}
    fn = getattr(mod, rec['fn'])
    if rec.get('args_pickle'):
        args = pickle.loads(base64.b64decode(rec['args_pickle']))
    else:
        args = eval(rec['args_repr'], {})
    detail = ''
    try:
        r = fn(**args)
        ok = bool(r)
    except V.HarnessGap as e:
        return None, args, 'HarnessGap: %r' % (e,), mod
    except BaseException as e:
        ok = False
        detail = 'raised ' + ''.join(traceback.format_exception_only(type(e), e)).strip()
    return (not ok), args, detail, mod


def main():
    rec = json.load(open(sys.argv[1]))
    reproduced, args, detail, mod = plain_call(rec)
    real = None
    if reproduced and hasattr(mod, 'replay_real'):
        try:
            real = mod.replay_real(rec['fn'], rec.get('shard'), args)
        except Exception as e:
            real = None
            detail += ' replay_real raised %r' % (e,)
    facts = [list(map(str, k)) for k in V.FACTS]
    print('REPLAY ' + json.dumps({'reproduced': reproduced, 'real': real, 'detail': detail,
                                  'facts': facts, 'args': repr(args)}))
    sys.exit(0 if reproduced and real is not False else 3)


if __name__ == '__main__':
    main()

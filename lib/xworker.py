"""Run ONE CrossHair condition (one harness function, one shard) in this process:
first the property assertion ('check'), then -- unless that was refuted -- the
vacuity twin ('reach': same function, same preconditions, verdict forced False, so
the solver must exhibit a path that reaches the oracle).  Prints one JSON line.

  python -m lib.xworker harness/C17_subst.py check_raw --shard '[2,3]' --timeout 60
"""
import argparse
import base64
import importlib.util
import json
import os
import pickle
import sys
import time
import traceback


def load_module(path):
    name = os.path.splitext(os.path.basename(path))[0]
    if name in sys.modules:
        return sys.modules[name]
    spec = importlib.util.spec_from_file_location(name, path)
    mod = importlib.util.module_from_spec(spec)
    sys.modules[name] = mod
    spec.loader.exec_module(mod)
    return mod


def run_mode(fn, mode, timeout, path_timeout, max_unint, solver_stat):
    from lib import V
    import crosshair.core as core
    from crosshair.core import analyze_function, run_checkables
    from crosshair.options import AnalysisOptionSet
    from crosshair.statespace import MessageType

    V.MODE = mode
    V.STATS['calls'] = 0
    V.STATS['reached'] = 0
    V.FACTS.clear()
    solver_stat['n'] = 0
    solver_stat['t'] = 0.0
    captured = {}
    orig_mk = core.make_counterexample_message

    def mk(conditions, args, return_val=None):
        msg = orig_mk(conditions, args, return_val)
        try:
            from crosshair.core import LazyCreationRepr, context_statespace
            from crosshair.tracers import NoTracing
            reprer = context_statespace().extra(LazyCreationRepr)
            with NoTracing():
                real = reprer.deep_realize(args)
                d = dict(real.arguments)
                captured['args_repr'] = repr(d)
                try:
                    captured['args_pickle'] = base64.b64encode(pickle.dumps(d)).decode()
                except Exception:
                    pass
        except Exception as e:  # pragma: no cover
            captured['capture_error'] = repr(e)
        return msg
    core.make_counterexample_message = mk
    t0 = time.time()
    c0 = time.process_time()
    res = {'mode': mode}
    try:
        kw = dict(per_condition_timeout=timeout, report_all=True)
        if path_timeout:
            kw['per_path_timeout'] = path_timeout
        if max_unint:
            kw['max_uninteresting_iterations'] = max_unint
        checkables = analyze_function(fn, AnalysisOptionSet(**kw))
        if not checkables:
            raise RuntimeError('no conditions found on %s' % fn.__name__)
        msgs = run_checkables(checkables)
        status, text, tb = 'unknown', '', ''
        for m in msgs:
            st = m.state
            if st == MessageType.CONFIRMED:
                status = 'confirmed'
            elif st == MessageType.CANNOT_CONFIRM:
                status = 'unknown'
            elif st == MessageType.PRE_UNSAT:
                status = 'pre_unsat'
            elif st in (MessageType.POST_FAIL, MessageType.POST_ERR, MessageType.EXEC_ERR):
                status = 'refuted'
                if 'NotDeterministic' in m.message or 'HarnessGap' in m.message \
                        or 'HarnessGap' in (m.traceback or ''):
                    status = 'error'
            else:
                status = 'error'
            text = m.message
            tb = m.traceback or ''
            if status in ('refuted', 'error'):
                break
        res.update(status=status, message=text, traceback=tb[-3000:], **captured)
    except BaseException as e:
        res.update(status='error', message='worker: ' + repr(e),
                   traceback=traceback.format_exc()[-3000:])
    finally:
        core.make_counterexample_message = orig_mk
    res['solver_queries'] = solver_stat['n']
    res['solver_s'] = round(solver_stat['t'], 3)
    res['paths'] = V.STATS['calls']
    res['reached'] = V.STATS['reached']
    res['facts'] = [[list(map(str, k)), n] for k, n in V.FACTS.most_common(100)]
    res['n_facts'] = len(V.FACTS)
    res['cpu_s'] = round(time.process_time() - c0, 2)
    res['wall_s'] = round(time.time() - t0, 2)
    return res


def main():
    ap = argparse.ArgumentParser()
    ap.add_argument('module')
    ap.add_argument('fn')
    ap.add_argument('--modes', default='check,reach')
    ap.add_argument('--reach-timeout', type=float, default=40)
    ap.add_argument('--shard', default=None)
    ap.add_argument('--params', default='{}')
    ap.add_argument('--timeout', type=float, default=60)
    ap.add_argument('--path-timeout', type=float, default=None)
    ap.add_argument('--max-uninteresting', type=int, default=None)
    ap.add_argument('--verbose', action='store_true')
    a = ap.parse_args()

    from lib import V
    V.SHARD = json.loads(a.shard) if a.shard is not None else None
    V.PARAMS = json.loads(a.params)
    out = {'module': a.module, 'fn': a.fn, 'shard': V.SHARD, 'params': V.PARAMS,
           'timeout': a.timeout, 'runs': {}}
    try:
        mod = load_module(a.module)
        fn = getattr(mod, a.fn)
        import z3
        solver_stat = {'n': 0, 't': 0.0}
        orig_check = z3.Solver.check

        def timed_check(self, *args):
            s = time.perf_counter()
            try:
                return orig_check(self, *args)
            finally:
                solver_stat['n'] += 1
                solver_stat['t'] += time.perf_counter() - s
        z3.Solver.check = timed_check
        if getattr(mod, 'NO_SOLVER_TIMEOUT', False):
            # every z3 check with a timeout starts a timer thread (mmap/futex/sched_yield storm when
            # 16 workers run); harnesses whose solver decisions are trivial (small ints / bools)
            # switch the per-query timeout off -- the per-condition budget still applies
            orig_set = z3.Solver.set

            def set_no_timeout(self, *a, **kw):
                kw.pop('timeout', None)
                if a and a[0] == 'timeout':
                    return None
                if a or kw:
                    return orig_set(self, *a, **kw)
            z3.Solver.set = set_no_timeout
        import crosshair.core_and_libs  # noqa: registers the library patches
        if a.verbose:
            from crosshair.util import set_debug
            set_debug(True)
        for mode in a.modes.split(','):
            if mode == 'reach' and out['runs'].get('check', {}).get('status') == 'refuted':
                continue
            to = a.timeout if mode == 'check' else a.reach_timeout
            out['runs'][mode] = run_mode(fn, mode, to, a.path_timeout, a.max_uninteresting,
                                         solver_stat)
    except BaseException as e:
        out['runs'].setdefault('check', {}).update(
            status='error', message='worker: ' + repr(e), traceback=traceback.format_exc()[-3000:])
    sys.stdout.write('\nXRESULT ' + json.dumps(out) + '\n')
    sys.stdout.flush()
    try:
        import atexit
        atexit._run_exitfuncs()      # harness scratch directories
    except Exception:
        pass
    os._exit(0)


if __name__ == '__main__':
    main()

"""Interleaving of *sequential* real code at file-system-operation granularity
without threads (stateless model checking by replay).

A process is a deterministic function `body(view)`; `view` is a ProcFS: the SymFS
API, but every call is an *operation* with an index.  To advance a process by one
shared operation the scheduler re-executes `body` from the start: operations
already in the process' log return (or raise) their logged outcome without touching
the shared file system, the next operation is executed for real.  Operations on
names private to the process (its temporary files) are executed eagerly: they
commute with everything other processes can do.  A process pauses *before* each
shared operation until the scheduler grants it.

Per process fault plan (symbolic ints decided with V.sym_eq): crash_at (the
operation with that index and everything after it never happens) and fail_at
(that operation raises OSError(errno) instead of being executed).
"""
import copy as _copy
import errno as _errno

from lib import V
from lib.symfs import FakeFile, FakeOS, SymFS, WouldBlock


class Pause(BaseException):
    pass


class Dead(BaseException):
    """process was killed at its crash point"""


class ReplayFile:
    def __init__(self, view, real):
        self._view = view
        self._real = real
        self.name = real.name

    def _call(self, name, *a):
        return self._view._op('f.' + name, (self._real.path,) + a,
                              lambda: getattr(self._real, name)(*a), self._real.path)

    def write(self, data):
        return self._call('write', data)

    def read(self, size=-1):
        return self._call('read', size)

    def readline(self, size=-1):
        return self._call('readline', size)

    def seek(self, off, whence=0):
        return self._call('seek', off, whence)

    def tell(self):
        return self._call('tell')

    def truncate(self, size=None):
        return self._call('truncate', size)

    def flush(self):
        return self._call('flush')

    def fileno(self):
        return self._call('fileno')

    def close(self):
        return self._call('close')

    def flock(self, exclusive):
        return self._call('flock', exclusive)

    def funlock(self):
        return self._call('funlock')

    def json_dump(self, obj):
        return self._call('json_dump', obj)

    def json_load(self):
        return self._call('json_load')

    @property
    def node(self):
        return self._real.node

    @property
    def closed(self):
        return self._real.closed

    def __enter__(self):
        return self

    def __exit__(self, *a):
        self.close()
        return False


class ProcFS:
    """per-process view of the shared SymFS"""

    def __init__(self, shared, name, crash_at=None, fail_at=None, fail_errno=_errno.EIO,
                 private=None):
        self.shared = shared
        self.pname = name
        self.log = []              # (kind, value) per executed operation
        self.idx = 0
        self.granted = False
        self.crash_at = crash_at
        self.fail_at = fail_at
        self.fail_errno = fail_errno
        self.private = private or (lambda path: False)
        self.tmp_counter = 0
        self.trace = []
        self.aborting = None       # Pause/Dead in flight: unwinding code (finally/__exit__) must not act
        self.blocked_on = None     # (FakeFile, exclusive) of a blocking lock request that cannot be served

    def begin(self):
        self.idx = 0
        self.tmp_counter = 0
        self.aborting = None
        self.blocked_on = None

    def is_private(self, path):
        return isinstance(path, str) and self.private(path)

    def _op(self, name, args, thunk, path=None):
        if self.aborting is not None:
            raise self.aborting()      # the process is being suspended/killed: nothing happens any more
        i = self.idx
        self.idx += 1
        if i > len(self.log):
            raise V.HarnessGap('replay log out of step')
        if i < len(self.log):
            kind, val = self.log[i]
            if kind == 'ret':
                if type(val) in (dict, list, set, bytearray):
                    return _copy.deepcopy(val)     # the code may mutate what it was given
                return val
            if kind == 'exc':
                raise val
            self.aborting = Dead
            raise Dead()
        shared_op = not self.is_private(path)
        if shared_op and not self.granted:
            self.idx -= 1
            self.aborting = Pause
            raise Pause()
        if self.crash_at is not None and V.sym_eq(i, self.crash_at):
            self.log.append(('dead', None))
            self.aborting = Dead
            raise Dead()
        if self.fail_at is not None and V.sym_eq(i, self.fail_at):
            e = OSError(self.fail_errno, 'injected I/O error', path)
            self.log.append(('exc', e))
            self.trace.append((name, path, 'EIO'))
            if shared_op:
                self.granted = False
            raise e
        try:
            try:
                r = thunk()
            except WouldBlock:
                # blocking lock: the process sleeps; nothing happened
                self.idx -= 1
                self.aborting = Pause
                self.blocked_on = name
                raise Pause()
            if isinstance(r, FakeFile):
                r = ReplayFile(self, r)
            self.log.append(('ret', _copy.deepcopy(r) if type(r) in (dict, list, set, bytearray) else r))
            self.trace.append((name, path, 'ok'))
        except Exception as e:
            self.log.append(('exc', e))
            self.trace.append((name, path, type(e).__name__))
            raise
        finally:
            if shared_op:
                self.granted = False
        return r

    # the SymFS API, every call an operation --------------------------------
    def mktemp_name(self, dir, prefix='tmp', suffix=''):
        self.tmp_counter += 1
        return (dir or '.') + '/%s%s-%04d%s' % (prefix, self.pname, self.tmp_counter, suffix)

    def env_op(self, name, thunk, path=None):
        return self._op('env.' + name, (), thunk, path)

    def __getattr__(self, name):
        if name.startswith('_') and name not in ('_resolve',):
            raise AttributeError(name)
        target = getattr(self.shared, name)
        if not callable(target) or name in ('norm', '_resolve'):
            return target

        def call(*a, **kw):
            path = a[0] if a and isinstance(a[0], str) else None
            if name in ('replace', 'rename', 'link') and len(a) > 1:
                # shared as soon as one side is shared
                path = a[1] if not self.is_private(a[1]) else a[0]
            if name in ('os_close', 'fsync') and a and isinstance(a[0], int):
                f = self.shared.fds.get(a[0])
                path = f.path if f is not None else None
            if name == 'symlink' and len(a) > 1:
                path = a[1]
            return self._op(name, a, lambda: target(*a, **kw), path)
        return call

    def named_temporary_file(self, mode='w+b', dir=None, delete=True, prefix='tmp', suffix='', **kw):
        self.tmp_counter += 1
        p = (dir or '.') + '/%s%s-%04d%s' % (prefix, self.pname, self.tmp_counter, suffix)
        f = self.open(p, 'w+b' if 'b' in mode else 'w+')
        f.name = p
        getattr(f, '_real', f).buffered = True          # Python's temporary files are buffered in user space
        return f


class Proc:
    def __init__(self, name, shared, body, install, **plan):
        self.name = name
        self.view = ProcFS(shared, name, **plan)
        self.body = body
        self.install = install       # binds the module globals of the code under test to this view
        self.finished = False
        self.result = None
        self.died = False

    def _run(self):
        self.view.begin()
        self.install(self.view)
        try:
            self.result = ('ret', self.body(self.view))
            self.finished = True
        except Pause:
            pass
        except Dead:
            self.finished = True
            self.died = True
            self.result = ('dead', None)
        except V.HarnessGap:
            raise
        except Exception as e:
            self.result = ('exc', e)
            self.finished = True

    def start(self):
        """run up to (not including) the first shared operation"""
        self.view.granted = False
        self._run()

    def advance(self):
        """execute exactly one shared operation (plus following private ones)"""
        self.view.granted = True
        self._run()


def _runnable(procs):
    return [p for p in procs if not p.finished]


def run_schedule(procs, sched, invariant):
    """symbolic prefix `sched`, then round-robin completion; `invariant()` is evaluated
    after every step and must return None or a violation string.  A process waiting for
    a lock is re-tried when chosen (a no-op if the lock is still held)."""
    for p in procs:
        p.start()
    v = invariant()
    if v:
        return v
    for c in sched:
        runnable = _runnable(procs)
        if not runnable:
            break
        runnable[V.sym_pick(c, len(runnable))].advance()
        v = invariant()
        if v:
            return v
    idle = 0
    rr = 0
    for _ in range(600):
        runnable = _runnable(procs)
        if not runnable:
            return None
        p = runnable[rr % len(runnable)]
        rr += 1
        before = len(p.view.log)
        p.advance()
        if not p.finished and len(p.view.log) == before and p.view.blocked_on:
            idle += 1
            if idle > 2 * len(procs):
                return 'deadlock: all unfinished processes wait for locks'
        else:
            idle = 0
        v = invariant()
        if v:
            return v
    raise V.HarnessGap('processes did not finish')

"""Engine Z: run real digest code on *symbolic byte strings* and record the SHA-1
pre-image it builds as a z3 sequence term.

SymBytes / SymStr wrap a z3 String term whose characters are constrained to single
bytes (ASCII for SymStr, so len(str) == len(str.encode())).  The real function is
executed once per *shape* (concrete numbers of tools / libs / variables / arguments),
with these module globals of the imported Bob module re-bound for the duration:

    len -> symlen,  struct -> SymStruct,  hashlib -> FakeHashlib,  bytearray -> SymByteArray

Bound (stated in evidence): every symbolic length is < 256, so struct.pack("<I", n)
is  chr(n) 00 00 00  (keeps the solver in linear arithmetic).
"""
import z3

MAXLEN = 255


def const_term(data):
    if isinstance(data, str):
        data = data.encode('latin-1')
    if not data:
        return z3.StringVal('')
    return z3.StringVal(''.join('\\u{%x}' % b for b in data))


class SymBytes:
    """byte string: z3 term + length (python int when known, else z3 Int term)"""

    def __init__(self, term, length=None):
        self.term = term
        self.length = length if length is not None else z3.Length(term)

    @staticmethod
    def of(data):
        if isinstance(data, SymBytes):
            return data
        if isinstance(data, SymByteArray):
            return data.value()
        if isinstance(data, (bytes, bytearray)):
            r = resym_bytes(data)
            if r is not None:
                return SymBytes(r[0], r[1])
            return SymBytes(const_term(bytes(data)), len(data))
        raise TypeError('SymBytes.of(%r)' % type(data))

    def __add__(self, other):
        o = SymBytes.of(other)
        return SymBytes(z3.Concat(self.term, o.term), _add(self.length, o.length))

    def __radd__(self, other):
        return SymBytes.of(other) + self

    def __len__(self):
        if isinstance(self.length, int):
            return self.length
        raise TypeError('symbolic length: use the re-bound len()')

    def __bool__(self):
        if isinstance(self.length, int):
            return self.length > 0
        raise TypeError('truth value of a byte string of symbolic length')

    def __getitem__(self, sl):
        if not isinstance(sl, slice) or sl.step is not None:
            raise TypeError('only plain slices')
        if not isinstance(self.length, int):
            raise TypeError('slice of symbolic length')
        start, stop, _ = sl.indices(self.length)
        n = max(0, stop - start)
        return SymBytes(z3.SubString(self.term, start, n), n)

    def __eq__(self, other):
        raise TypeError('comparison of symbolic bytes in traced code')

    __hash__ = None


# Symbolic text is a *str subclass* whose concrete value is a unique marker
# (private-use code points).  Operations the class overrides (+, encode, len via the
# re-bound len) stay symbolic; any other str operation of the code under test
# ("".join, format, f-strings ...) works on the marker text, and the markers are turned
# back into the z3 terms they stand for when the text reaches the hasher
# (SymBytes.of / symlen).  A marker that was cut in pieces raises MarkerBroken.
_M0, _M1, _MBASE = '\ue000', '\ue001', 0xe100
_REG = []


class MarkerBroken(Exception):
    pass


def _register(term, length):
    _REG.append((term, length))
    return _M0 + chr(_MBASE + len(_REG) - 1) + _M1


def resym_text(s):
    """plain str possibly containing markers -> (term, length)"""
    if _M0 not in s and _M1 not in s:
        return const_term(s), len(s.encode('utf8'))
    parts, length = [], 0
    i = 0
    while i < len(s):
        k = s.find(_M0, i)
        if k < 0:
            k = len(s)
        if k > i:
            chunk = s[i:k]
            if _M1 in chunk or any(0xe100 <= ord(c) < 0xf000 for c in chunk):
                raise MarkerBroken(repr(s))
            parts.append(const_term(chunk.encode('utf8')))
            length = _add(length, len(chunk.encode('utf8')))
        if k == len(s):
            break
        if k + 2 >= len(s) or s[k + 2] != _M1:
            raise MarkerBroken(repr(s))
        idx = ord(s[k + 1]) - _MBASE
        if not 0 <= idx < len(_REG):
            raise MarkerBroken(repr(s))
        t, l = _REG[idx]
        parts.append(t)
        length = _add(length, l)
        i = k + 3
    if not parts:
        return const_term(b''), 0
    term = parts[0] if len(parts) == 1 else z3.Concat(*parts)
    return term, length


def resym_bytes(b):
    try:
        s = bytes(b).decode('utf8')
    except UnicodeDecodeError:
        return None
    if _M0 not in s and _M1 not in s:
        return None
    return resym_text(s)


class SymStr(str):
    """ASCII text of symbolic content; length symbolic or concrete"""

    def __new__(cls, term, length=None, nonempty=True):
        length = length if length is not None else z3.Length(term)
        self = str.__new__(cls, _register(term, length))
        self.term = term
        self.length = length
        self.nonempty = nonempty
        return self

    def encode(self, enc='utf8', errors='strict'):
        return SymBytes(self.term, self.length)

    def __add__(self, other):
        if isinstance(other, SymStr):
            t, l = other.term, other.length
        elif isinstance(other, str):
            t, l = resym_text(other)
        else:
            return NotImplemented
        return SymStr(z3.Concat(self.term, t), _add(self.length, l))

    def __radd__(self, other):
        if isinstance(other, str):
            t, l = resym_text(other)
            return SymStr(z3.Concat(t, self.term), _add(l, self.length))
        return NotImplemented

    def __len__(self):
        if isinstance(self.length, int):
            return self.length
        raise TypeError('symbolic length: use the re-bound len()')

    def __bool__(self):
        if isinstance(self.length, int):
            return self.length > 0
        if self.nonempty:
            return True
        raise TypeError('truth value of a string of symbolic length')

    def __hash__(self):
        return str.__hash__(self)

    def __eq__(self, other):
        return str.__eq__(self, other)


def _add(a, b):
    if isinstance(a, int) and isinstance(b, int):
        return a + b
    return a + b


def symlen(x):
    if isinstance(x, (SymBytes, SymStr)):
        return x.length
    if isinstance(x, SymByteArray):
        return x.value().length
    if isinstance(x, str) and (_M0 in x or _M1 in x):
        return resym_text(x)[1]
    if isinstance(x, (bytes, bytearray)):
        r = resym_bytes(x)
        if r is not None:
            return r[1]
    return len(x)


class SymStruct:
    """struct.pack for the little-endian / native unsigned formats the digest code uses"""

    @staticmethod
    def pack(fmt, *vals):
        f = fmt.lstrip('<=>!@')
        out = None
        if len(f) != len(vals):
            raise TypeError('SymStruct.pack: format %r' % fmt)
        for ch, v in zip(f, vals):
            if ch not in 'IL':
                raise TypeError('SymStruct.pack: format %r' % fmt)
            if isinstance(v, int):
                piece = SymBytes(const_term(int(v).to_bytes(4, 'little')), 4)
            else:
                # symbolic v with 0 <= v < 256 (bound asserted by the caller's constraints)
                piece = SymBytes(z3.Concat(z3.StrFromCode(v), const_term(b'\x00\x00\x00')), 4)
            out = piece if out is None else out + piece
        return out

    @staticmethod
    def calcsize(fmt):
        import struct
        return struct.calcsize(fmt)


class SymByteArray:
    def __init__(self, init=None):
        self.parts = []
        if init:
            self.parts.append(SymBytes.of(init))

    def extend(self, data):
        self.parts.append(SymBytes.of(data))

    def value(self):
        if not self.parts:
            return SymBytes(const_term(b''), 0)
        v = self.parts[0]
        for p in self.parts[1:]:
            v = v + p
        return v

    def __bool__(self):
        return bool(self.value())


class PreImage:
    """what sha1().digest() returns under the recorder: a 20 byte value that stands for
    SHA-1 of `pre` (a SymBytes).  Several may be concatenated (DigestHasher.digest())."""

    def __init__(self, pres):
        self.pres = list(pres)

    def __add__(self, other):
        return PreImage(self.pres + other.pres)

    def __len__(self):
        return 20 * len(self.pres)


class _Sha1:
    def __init__(self, data=None):
        self.buf = SymByteArray()
        if data is not None:
            self.buf.extend(data)

    def update(self, data):
        self.buf.extend(data)

    def digest(self):
        return PreImage([self.buf.value()])


class FakeHashlib:
    sha1 = _Sha1


class Recorder:
    """context manager: re-bind len/struct/hashlib/bytearray in the given modules"""

    def __init__(self, *modules):
        self.modules = modules
        self.saved = []

    def __enter__(self):
        for m in self.modules:
            old = {k: m.__dict__.get(k, _MISSING) for k in ('len', 'struct', 'hashlib', 'bytearray')}
            self.saved.append((m, old))
            m.len = symlen
            m.struct = SymStruct
            m.hashlib = FakeHashlib
            m.bytearray = SymByteArray
        return self

    def __exit__(self, *a):
        for m, old in self.saved:
            for k, v in old.items():
                if v is _MISSING:
                    m.__dict__.pop(k, None)
                else:
                    m.__dict__[k] = v
        self.saved = []
        return False


_MISSING = object()


class Vars:
    """factory of fresh symbolic strings with their side constraints"""

    def __init__(self, prefix, maxlen=6):
        self.prefix = prefix
        self.maxlen = maxlen
        self.constraints = []
        self.items = {}
        self.n = 0

    def text(self, name, minlen=1, maxlen=None):
        """ASCII text 1..maxlen chars (no NUL)"""
        maxlen = maxlen or self.maxlen
        t = z3.String('%s_%s' % (self.prefix, name))
        self.constraints.append(z3.Length(t) >= minlen)
        self.constraints.append(z3.Length(t) <= maxlen)
        self.constraints.append(z3.InRe(t, z3.Star(z3.Range('\x01', '\x7f'))))
        s = SymStr(t, nonempty=minlen >= 1)
        self.items[name] = s
        return s

    def digest(self, name, n=20):
        """an arbitrary id of n bytes (the digest of some other step)"""
        t = z3.String('%s_%s' % (self.prefix, name))
        self.constraints.append(z3.Length(t) == n)
        b = SymBytes(t, n)
        self.items[name] = b
        return b


def differ(a, b):
    """z3 condition: two symbolic values (same python structure) are different"""
    if isinstance(a, (SymStr, SymBytes)) or isinstance(b, (SymStr, SymBytes)):
        ta = a.term if isinstance(a, (SymStr, SymBytes)) else const_term(a)
        tb = b.term if isinstance(b, (SymStr, SymBytes)) else const_term(b)
        return ta != tb
    if isinstance(a, (list, tuple)) and isinstance(b, (list, tuple)):
        if len(a) != len(b):
            return z3.BoolVal(True)
        if not a:
            return z3.BoolVal(False)
        return z3.Or([differ(x, y) for x, y in zip(a, b)])
    return z3.BoolVal(a != b)


def preimage_equal(p, q):
    if len(p.pres) != len(q.pres):
        return z3.BoolVal(False)
    return z3.And([x.term == y.term for x, y in zip(p.pres, q.pres)])


def model_bytes(model, term):
    v = model.eval(term, model_completion=True)
    s = v.as_string()
    return _unescape(s)


def _unescape(s):
    out = bytearray()
    i = 0
    while i < len(s):
        if s.startswith('\\u{', i):
            j = s.index('}', i)
            out.append(int(s[i + 3:j], 16) & 0xff)
            i = j + 1
        else:
            out.append(ord(s[i]) & 0xff)
            i += 1
    return bytes(out)

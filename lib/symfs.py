"""SymFS: a small in-memory POSIX file-system model used as the *environment stub*
for checks that execute real Bob code symbolically (C05, C08-C12, C15, world
harness).  The model is deterministic pure Python so it runs under CrossHair; what
is symbolic is the *fault plan*:

  crash_at : int   the mutating operation with that index, and everything after
                   it, does not happen (kill -9 / power cut): raises Crash
  fail_at  : int   that single operation raises OSError(fail_errno) without effect
  (a torn-write image is produced afterwards by `power_loss_image`)

Every mutating call `tick()`s; observing calls tick only when tick_reads is set.
An operation the model does not know raises V.HarnessGap (never a verdict).
"""
import copy as _copy
import errno as _errno
import posixpath
import stat as _stat

from lib import V


class Crash(BaseException):
    """the process is gone: nothing after this point touches the file system"""


O_RDONLY, O_WRONLY, O_RDWR = 0, 1, 2
O_CREAT, O_EXCL, O_TRUNC, O_APPEND = 0o100, 0o200, 0o1000, 0o2000


class Inode:
    __slots__ = ('ino', 'kind', 'data', 'durable', 'nlink', 'mode', 'target', 'mtime', 'ctime', 'tag', 'tag_lock')

    def __init__(self, ino, kind, mode, clock):
        self.ino = ino
        self.kind = kind          # 'f' file, 'l' symlink, 'p' fifo, 'c' char dev ...
        self.data = b''
        self.durable = None       # content known to be on stable storage (None: never synced)
        self.nlink = 0
        self.mode = mode
        self.target = None
        self.mtime = clock
        self.ctime = clock
        self.tag = None
        self.tag_lock = None


class StatResult:
    def __init__(self, st_mode, st_ino, st_dev, st_nlink, st_size, mtime, ctime):
        self.st_mode = st_mode
        self.st_ino = st_ino
        self.st_dev = st_dev
        self.st_nlink = st_nlink
        self.st_size = st_size
        self.st_uid = 0
        self.st_rdev = 0
        self.st_gid = 0
        self.st_mtime_ns = mtime
        self.st_ctime_ns = ctime
        self.st_atime_ns = mtime
        self.st_mtime = mtime / 1e9
        self.st_ctime = ctime / 1e9
        self.st_atime = mtime / 1e9


def _err(code, path=None):
    return OSError(code, 'symfs: ' + _errno.errorcode.get(code, str(code)), path)


class SymFS:
    def __init__(self, crash_at=None, fail_at=None, fail_errno=_errno.EIO, tick_reads=False):
        self.names = {}            # normalised path -> Inode (files, symlinks, specials)
        self.dirs = {'.': 0o755, '/': 0o755}
        self.next_ino = 100
        self.clock = 1000
        self.ops = 0
        self.log = []
        self.crash_at = crash_at
        self.fail_at = fail_at
        self.fail_errno = fail_errno
        self.tick_reads = tick_reads
        self.crashed = False
        self.fds = {}
        self.next_fd = 10
        self.tmp_counter = 0
        self.cwd = '.'
        self.hook = None           # optional callable(fs, what, args) after each successful mutation

    # ------------------------------------------------------------ helpers ----
    def norm(self, p):
        if isinstance(p, bytes):
            p = p.decode()
        if hasattr(p, '__fspath__'):
            p = p.__fspath__()
        p = posixpath.normpath(p)
        if p.startswith('./'):
            p = p[2:]
        return p

    def tick(self, what, *args, mutating=True):
        if not mutating and not self.tick_reads:
            return
        k = self.ops
        self.ops += 1
        self.log.append((what,) + args)
        if self.crashed:
            raise Crash()
        # the fault plan is symbolic: these comparisons are solver decisions even when the
        # caller runs with tracing suspended (V.fast)
        if self.crash_at is not None and V.sym_eq(k, self.crash_at):
            self.crashed = True
            raise Crash()
        if self.fail_at is not None and V.sym_eq(k, self.fail_at):
            raise _err(self.fail_errno, args[0] if args else None)

    def done(self, what, *args):
        if self.hook is not None:
            self.hook(self, what, args)

    def _parent_ok(self, p):
        d = posixpath.dirname(p) or '.'
        d = self.norm(d)
        if d not in self.dirs:
            if d in self.names:
                raise _err(_errno.ENOTDIR, p)
            raise _err(_errno.ENOENT, p)

    def _touch(self, node):
        self.clock += 1
        node.mtime = self.clock
        node.ctime = self.clock

    def _resolve(self, p, follow=True, depth=0):
        """component-wise path resolution as the kernel does it: symbolic links are followed
        before a following '..' is applied; `follow` only concerns the final component"""
        if isinstance(p, bytes):
            p = p.decode()
        if hasattr(p, '__fspath__'):
            p = p.__fspath__()
        if depth > 12:
            raise _err(_errno.ELOOP, p)
        absolute = p.startswith('/')
        parts = [c for c in p.split('/') if c not in ('', '.')]
        cur = []

        def key(lst):
            if absolute:
                return '/' + '/'.join(lst)
            return '/'.join(lst) if lst else '.'
        for idx, c in enumerate(parts):
            last = idx == len(parts) - 1
            if c == '..':
                if cur:
                    cur.pop()
                continue
            cand = key(cur + [c])
            n = self.names.get(cand)
            if n is not None and n.kind == 'l' and (follow or not last):
                tgt = n.target
                rest = parts[idx + 1:]
                if tgt.startswith('/'):
                    newp = '/'.join([tgt] + rest)
                else:
                    base = key(cur)
                    newp = '/'.join([base if base != '.' else '', tgt] + rest) if base != '.' else '/'.join([tgt] + rest)
                    if absolute and not newp.startswith('/'):
                        newp = '/' + newp
                return self._resolve(newp, follow, depth + 1)
            cur.append(c)
        return key(cur)

    # ----------------------------------------------------- file creation ----
    def _new(self, kind, mode):
        self.next_ino += 1
        self.clock += 1
        return Inode(self.next_ino, kind, mode, self.clock)

    def _bind(self, p, node):
        self.names[p] = node
        node.nlink += 1

    def _unbind(self, p):
        node = self.names.pop(p)
        node.nlink -= 1
        return node

    def put(self, p, data=b'', mode=0o644, durable=True):
        """set-up helper (no tick): create a file with content"""
        p = self.norm(p)
        self.mkdirs(posixpath.dirname(p) or '.')
        n = self._new('f', mode)
        n.data = data
        n.durable = data if durable else None
        self._bind(p, n)
        return n

    def mkdirs(self, d):
        d = self.norm(d)
        if d in self.dirs:
            return
        parent = posixpath.dirname(d)
        if parent and parent != d:
            self.mkdirs(parent)
        self.dirs[d] = 0o755

    # ---------------------------------------------------------- os level ----
    def exists(self, p):
        self.tick('exists', p, mutating=False)
        try:
            q = self._resolve(p)
        except OSError:
            return False
        return q in self.names or q in self.dirs

    def lexists(self, p):
        self.tick('lexists', p, mutating=False)
        q = self._resolve(p, follow=False)
        return q in self.names or q in self.dirs

    def isfile(self, p):
        self.tick('isfile', p, mutating=False)
        try:
            q = self._resolve(p)
        except OSError:
            return False
        n = self.names.get(q)
        return n is not None and n.kind == 'f'

    def isdir(self, p):
        self.tick('isdir', p, mutating=False)
        try:
            q = self._resolve(p)
        except OSError:
            return False
        return q in self.dirs

    def islink(self, p):
        self.tick('islink', p, mutating=False)
        q = self._resolve(p, follow=False)
        n = self.names.get(q)
        return n is not None and n.kind == 'l'

    def open_fd(self, p, flags, mode=0o666):
        p0 = self.norm(p)
        acc = flags & 3
        q = self._resolve(p0, follow=not (flags & O_EXCL and flags & O_CREAT))
        creating = bool(flags & O_CREAT) and q not in self.names
        mut = creating or bool(flags & O_TRUNC)
        self.tick('open', p0, flags, mutating=mut)
        if q in self.dirs:
            raise _err(_errno.EISDIR, p0)
        n = self.names.get(q)
        if n is None:
            if not flags & O_CREAT:
                raise _err(_errno.ENOENT, p0)
            self._parent_ok(q)
            n = self._new('f', mode & 0o777)
            self._bind(q, n)
        else:
            if flags & O_CREAT and flags & O_EXCL:
                raise _err(_errno.EEXIST, p0)
            if flags & O_TRUNC and acc != O_RDONLY:
                n.data = b''
                self._touch(n)
        f = FakeFile(self, n, q, readable=acc in (O_RDONLY, O_RDWR), writable=acc in (O_WRONLY, O_RDWR),
                     append=bool(flags & O_APPEND))
        if mut:
            self.done('open', q)
        return f

    def open(self, p, mode='r', *a, **kw):
        binary = 'b' in mode
        m = mode.replace('b', '').replace('t', '')
        if m == 'r':
            fl = O_RDONLY
        elif m == 'r+':
            fl = O_RDWR
        elif m == 'w':
            fl = O_WRONLY | O_CREAT | O_TRUNC
        elif m == 'w+':
            fl = O_RDWR | O_CREAT | O_TRUNC
        elif m == 'x':
            fl = O_WRONLY | O_CREAT | O_EXCL
        elif m == 'a':
            fl = O_WRONLY | O_CREAT | O_APPEND
        else:
            raise V.HarnessGap('open mode ' + mode)
        f = self.open_fd(p, fl)
        f.binary = binary
        f.name = p
        return f

    def os_open(self, p, flags, mode=0o777):
        f = self.open_fd(p, flags, mode)
        fd = self.next_fd
        self.next_fd += 1
        self.fds[fd] = f
        f.fd = fd
        return fd

    def os_close(self, fd):
        f = self.fds.pop(fd, None)
        if f is None:
            raise _err(_errno.EBADF)
        f.closed = True

    def fsync(self, fd):
        f = self.fds.get(fd) if isinstance(fd, int) else fd
        if f is None:
            raise _err(_errno.EBADF)
        self.tick('fsync', f.path)
        f.node.durable = f.node.data
        self.done('fsync', f.path)

    def unlink(self, p):
        p = self.norm(p)
        self.tick('unlink', p)
        q = self._resolve(p, follow=False)
        if q in self.dirs:
            raise _err(_errno.EISDIR, p)
        if q not in self.names:
            raise _err(_errno.ENOENT, p)
        self._unbind(q)
        self.done('unlink', q)

    def replace(self, src, dst):
        src, dst = self.norm(src), self.norm(dst)
        self.tick('rename', src, dst)
        s = self._resolve(src, follow=False)
        d = self._resolve(dst, follow=False)
        if s in self.dirs:
            if d in self.names:
                raise _err(_errno.ENOTDIR, dst)
            if d in self.dirs:
                if any(k.startswith(d + '/') for k in list(self.names) + list(self.dirs)):
                    raise _err(_errno.ENOTEMPTY, dst)
            self._parent_ok(d)
            for coll in (self.names, self.dirs):
                for k in sorted(coll):
                    if k == s or k.startswith(s + '/'):
                        coll[d + k[len(s):]] = coll.pop(k)
            self.done('rename', s, d)
            return
        if s not in self.names:
            raise _err(_errno.ENOENT, src)
        if d in self.dirs:
            raise _err(_errno.EISDIR, dst)
        self._parent_ok(d)
        n = self.names[s]
        if d in self.names:
            if self.names[d] is n:
                return
            self._unbind(d)
        self.names.pop(s)
        self.names[d] = n
        self.clock += 1
        n.ctime = self.clock
        self.done('rename', s, d)

    rename = replace

    def link(self, src, dst):
        src, dst = self.norm(src), self.norm(dst)
        self.tick('link', src, dst)
        s = self._resolve(src, follow=False)
        d = self._resolve(dst, follow=False)
        if s not in self.names:
            raise _err(_errno.ENOENT, src)
        if d in self.names or d in self.dirs:
            raise _err(_errno.EEXIST, dst)
        self._parent_ok(d)
        self._bind(d, self.names[s])
        self.done('link', s, d)

    def symlink(self, target, p):
        p = self.norm(p)
        self.tick('symlink', target, p)
        q = self._resolve(p, follow=False)
        if q in self.names or q in self.dirs:
            raise _err(_errno.EEXIST, p)
        self._parent_ok(q)
        n = self._new('l', 0o777)
        n.target = target
        self._bind(q, n)
        self.done('symlink', q)

    def readlink(self, p):
        q = self._resolve(p, follow=False)
        n = self.names.get(q)
        if n is None or n.kind != 'l':
            raise _err(_errno.EINVAL, p)
        return n.target

    def mkdir(self, p, mode=0o777):
        p = self.norm(p)
        self.tick('mkdir', p)
        q = self._resolve(p, follow=False)
        if q in self.dirs or q in self.names:
            raise _err(_errno.EEXIST, p)
        self._parent_ok(q)
        self.dirs[q] = mode & 0o777
        self.done('mkdir', q)

    def makedirs(self, p, mode=0o777, exist_ok=False):
        p = self.norm(p)
        q = self._resolve(p)
        if q in self.dirs:
            if exist_ok:
                return
            raise _err(_errno.EEXIST, p)
        parent = posixpath.dirname(q)
        if parent and parent not in self.dirs:
            self.makedirs(parent, mode, True)
        self.mkdir(q, mode)

    def rmdir(self, p):
        p = self.norm(p)
        self.tick('rmdir', p)
        q = self._resolve(p, follow=False)
        if q not in self.dirs:
            raise _err(_errno.ENOENT if q not in self.names else _errno.ENOTDIR, p)
        if any(k.startswith(q + '/') for k in list(self.names) + list(self.dirs)):
            raise _err(_errno.ENOTEMPTY, p)
        del self.dirs[q]
        self.done('rmdir', q)

    def rmtree(self, p, ignore_errors=False, onerror=None):
        p = self.norm(p)
        q = self._resolve(p, follow=False)
        if q not in self.dirs:
            if ignore_errors:
                return
            raise _err(_errno.ENOENT, p)
        for k in sorted([k for k in self.names if k.startswith(q + '/')], reverse=True):
            self.unlink(k)
        for k in sorted([k for k in self.dirs if k.startswith(q + '/')], reverse=True):
            self.rmdir(k)
        self.rmdir(q)

    def listdir(self, p='.'):
        self.tick('listdir', p, mutating=False)
        q = self._resolve(p)
        if q not in self.dirs:
            raise _err(_errno.ENOENT if q not in self.names else _errno.ENOTDIR, p)
        pre = '' if q == '.' else q + '/'
        out = []
        for k in list(self.names) + list(self.dirs):
            if k.startswith(pre) and k != q and '/' not in k[len(pre):] and k not in ('.', '/'):
                if not pre and k.startswith('/'):
                    continue
                out.append(k[len(pre):])
        return sorted(set(out))

    def _stat_of(self, q, p):
        if q in self.dirs:
            return StatResult(_stat.S_IFDIR | self.dirs[q], hash(q) % 100000 + 5, 1, 2, 4096, 1, 1)
        n = self.names.get(q)
        if n is None:
            raise _err(_errno.ENOENT, p)
        fmt = {'f': _stat.S_IFREG, 'l': _stat.S_IFLNK, 'p': _stat.S_IFIFO, 'c': _stat.S_IFCHR,
               'b': _stat.S_IFBLK, 's': _stat.S_IFSOCK}[n.kind]
        size = len(n.target) if n.kind == 'l' else len(n.data)
        return StatResult(fmt | n.mode, n.ino, 1, n.nlink, size, n.mtime, n.ctime)

    def stat(self, p, follow_symlinks=True):
        self.tick('stat', p, mutating=False)
        return self._stat_of(self._resolve(p, follow=follow_symlinks), p)

    def lstat(self, p):
        self.tick('lstat', p, mutating=False)
        return self._stat_of(self._resolve(p, follow=False), p)

    def chmod(self, p, mode):
        p = self.norm(p)
        self.tick('chmod', p)
        q = self._resolve(p)
        if q in self.dirs:
            self.dirs[q] = mode & 0o7777
        elif q in self.names:
            self.names[q].mode = mode & 0o7777
            self.clock += 1
            self.names[q].ctime = self.clock
        else:
            raise _err(_errno.ENOENT, p)
        self.done('chmod', q)

    def utime(self, p, times=None, **kw):
        p = self.norm(p)
        self.tick('utime', p)
        q = self._resolve(p)
        if q in self.names:
            self._touch(self.names[q])
        elif q not in self.dirs:
            raise _err(_errno.ENOENT, p)
        self.done('utime', q)

    def fstat(self, fd):
        f = self.fds.get(fd)
        if f is None:
            raise _err(_errno.EBADF)
        n = f.node
        return StatResult(_stat.S_IFREG | n.mode, n.ino, 1, n.nlink, len(n.data), n.mtime, n.ctime)

    def samefile(self, a, b):
        qa = self._resolve(self.norm(a))
        qb = self._resolve(self.norm(b))
        if not (qa in self.names or qa in self.dirs):
            raise _err(_errno.ENOENT, a)
        if not (qb in self.names or qb in self.dirs):
            raise _err(_errno.ENOENT, b)
        return qa == qb

    def read_tag(self, p):
        n = self.names.get(self._resolve(p))
        return None if n is None else _copy.deepcopy(n.tag)

    def env_op(self, name, thunk, path=None):
        """an environment function that reads shared state (must be an operation so that
        process replay does not re-evaluate it at a different time)"""
        return thunk()

    def mktemp_name(self, dir, prefix='tmp', suffix=''):
        self.tmp_counter += 1
        return posixpath.join(dir or '.', '%s%04d%s' % (prefix, self.tmp_counter, suffix))

    # --------------------------------------------------------- inspection ----
    def read_data(self, p):
        q = self._resolve(p)
        n = self.names.get(q)
        return None if n is None else n.data

    def snapshot(self):
        return {k: (n.ino, n.kind, n.data, n.target) for k, n in self.names.items()}, dict(self.dirs)

    def mutating_ops(self):
        return self.ops


class FakeFile:
    def __init__(self, fs, node, path, readable, writable, append=False):
        self.fs = fs
        self.node = node
        self.path = path
        self.name = path
        self.readable_ = readable
        self.writable_ = writable
        self.append = append
        self.pos = 0
        self.closed = False
        self.binary = True
        self.fd = None
        # user-space buffering (opt-in, e.g. for NamedTemporaryFile stand-ins): written data reach the file system -- and
        # other processes, and other names of the inode -- only with flush() / close() / a seek or read
        self.buffered = False
        self._pending = b''

    def __enter__(self):
        return self

    def __exit__(self, *a):
        self.close()
        return False

    def _flushbuf(self):
        if self._pending:
            data, self._pending = self._pending, b''
            self.pos -= len(data)
            self._write_through(data)

    def fileno(self):
        if self.fd is None:
            self.fd = self.fs.next_fd
            self.fs.next_fd += 1
            self.fs.fds[self.fd] = self
        return self.fd

    def _enc(self, data):
        if isinstance(data, str):
            return data.encode('utf-8')
        return bytes(data)

    def write(self, data):
        if not self.writable_:
            raise OSError(_errno.EBADF, 'not writable')
        data = self._enc(data)
        if self.buffered:
            self._pending += data
            self.pos += len(data)
            return len(data)
        return self._write_through(data)

    def _write_through(self, data):
        self.fs.tick('write', self.path, len(data))
        n = self.node
        if self.append:
            self.pos = len(n.data)
        n.data = n.data[:self.pos] + data + n.data[self.pos + len(data):]
        self.pos += len(data)
        self.fs._touch(n)
        self.fs.done('write', self.path)
        return len(data)

    def read(self, size=-1):
        if not self.readable_:
            raise OSError(_errno.EBADF, 'not readable')
        self._flushbuf()
        self.fs.tick('read', self.path, mutating=False)
        d = self.node.data
        if size is None or size < 0:
            out = d[self.pos:]
        else:
            out = d[self.pos:self.pos + size]
        self.pos += len(out)
        return out if self.binary else out.decode('utf-8')

    def readline(self, size=-1):
        d = self.node.data
        i = d.find(b'\n', self.pos)
        end = len(d) if i < 0 else i + 1
        out = d[self.pos:end]
        self.pos = end
        return out if self.binary else out.decode('utf-8')

    def readinto(self, b):
        out = self.read(len(b))
        b[:len(out)] = out
        return len(out)

    def seek(self, off, whence=0):
        self._flushbuf()
        if whence == 0:
            self.pos = off
        elif whence == 1:
            self.pos += off
        else:
            self.pos = len(self.node.data) + off
        return self.pos

    def tell(self):
        return self.pos

    def truncate(self, size=None):
        self._flushbuf()
        size = self.pos if size is None else size
        self.fs.tick('truncate', self.path, size)
        self.node.data = self.node.data[:size]
        self.fs._touch(self.node)
        return size

    def flush(self):
        self._flushbuf()

    def close(self):
        if not self.closed:
            self._flushbuf()
        self.closed = True
        if self.fd is not None:
            self.fs.fds.pop(self.fd, None)

    def __iter__(self):
        while True:
            l = self.readline()
            if not l:
                return
            yield l


class FakePath:
    """os.path facade: string functions are the real posixpath ones"""

    def __init__(self, fs):
        self.fs = fs
        for f in ('join', 'normpath', 'dirname', 'basename', 'split', 'splitext', 'isabs',
                  'relpath', 'commonprefix', 'commonpath', 'sep', 'normcase', 'expanduser'):
            setattr(self, f, getattr(posixpath, f))
        self.exists = fs.exists
        self.lexists = fs.lexists
        self.isfile = fs.isfile
        self.isdir = fs.isdir
        self.islink = fs.islink

    def abspath(self, p):
        return posixpath.normpath(posixpath.join('/cwd', p))

    def realpath(self, p, **kw):
        # like the real function: symbolic links are resolved component by component, '..' applies
        # to the resolved prefix; dangling components are kept lexically
        if isinstance(p, bytes):
            p = p.decode()
        return self.fs._resolve(p if p.startswith('/') else '/cwd/' + p)

    def getsize(self, p):
        return self.fs.stat(p).st_size

    def getmtime(self, p):
        return self.fs.stat(p).st_mtime

    def __getattr__(self, name):
        raise V.HarnessGap('os.path.%s not modelled' % name)


class FakeOS:
    """stand-in for the `os` module global of a Bob module"""
    O_RDONLY, O_WRONLY, O_RDWR = O_RDONLY, O_WRONLY, O_RDWR
    O_CREAT, O_EXCL, O_TRUNC, O_APPEND = O_CREAT, O_EXCL, O_TRUNC, O_APPEND
    sep = '/'
    name = 'posix'
    curdir = '.'
    pardir = '..'
    error = OSError
    devnull = '/dev/null'

    def __init__(self, fs, environ=None):
        self.fs = fs
        self.path = FakePath(fs)
        self.environ = environ if environ is not None else {}
        self.open = fs.os_open
        self.close = fs.os_close
        self.fsync = fs.fsync
        self.unlink = fs.unlink
        self.remove = fs.unlink
        self.rename = fs.rename
        self.replace = fs.replace
        self.link = fs.link
        self.symlink = fs.symlink
        self.readlink = lambda p: _readlink(self, p)
        self.mkdir = fs.mkdir
        self.makedirs = fs.makedirs
        self.rmdir = fs.rmdir
        self.listdir = fs.listdir
        self.stat = fs.stat
        self.lstat = fs.lstat
        self.chmod = fs.chmod
        self.utime = fs.utime

    def getcwd(self):
        return '/cwd'

    def getpid(self):
        return 4242

    def fspath(self, p):
        return p

    def strerror(self, code):
        return 'error %d' % code

    def __getattr__(self, name):
        raise V.HarnessGap('os.%s not modelled' % name)


# ---------------------------------------------------------------------------
# object codec, locks, shutil/tempfile facades (used by C15 and the world harness)
import copy as _copy
import json as _json


class WouldBlock(BaseException):
    """a blocking lock cannot be taken now"""


def _flock(self, exclusive):
    n = self.node
    st = getattr(n, 'tag_lock', None)
    if st is None:
        st = n.tag_lock = {'ex': None, 'sh': []}
    if exclusive:
        if (st['ex'] is not None and st['ex'] is not self) or [h for h in st['sh'] if h is not self]:
            raise WouldBlock()
        st['ex'] = self
    else:
        if st['ex'] is not None and st['ex'] is not self:
            raise WouldBlock()
        if self not in st['sh']:
            st['sh'].append(self)


def _funlock(self):
    st = getattr(self.node, 'tag_lock', None)
    if st is None:
        return
    if st['ex'] is self:
        st['ex'] = None
    if self in st['sh']:
        st['sh'].remove(self)


def _json_dump(self, obj):
    if not self.writable_:
        raise OSError(_errno.EBADF, 'not writable')
    self.fs.tick('write', self.path, 1)
    self.node.tag = _copy.deepcopy(obj)
    self.node.data = b'J'
    self.pos = 1
    self.fs._touch(self.node)
    self.fs.done('write', self.path)


def _json_load(self):
    if self.node.tag is None or self.node.data != b'J':
        raise _json.JSONDecodeError('corrupt', 'x', 0)
    return _copy.deepcopy(self.node.tag)


def _close_unlock(self):
    _funlock(self)
    FakeFile._plain_close(self)


FakeFile.flock = _flock
FakeFile.funlock = _funlock
FakeFile.json_dump = _json_dump
FakeFile.json_load = _json_load
FakeFile._plain_close = FakeFile.close
FakeFile.close = _close_unlock


class FakeJson:
    JSONDecodeError = _json.JSONDecodeError

    @staticmethod
    def load(f):
        return f.json_load()

    @staticmethod
    def dump(obj, f, **kw):
        return f.json_dump(obj)


class FakeTempDir:
    def __init__(self, fs, dir=None, **kw):
        self.fs = fs
        self.name = fs.mktemp_name(dir or '/tmp', 'tmpdir')
        fs.mkdir(self.name)

    def __enter__(self):
        return self.name

    def __exit__(self, *a):
        self.cleanup()
        return False

    def cleanup(self):
        self.fs.rmtree(self.name, ignore_errors=True)


class FakeShutil:
    def __init__(self, fs):
        self.fs = fs

    def copyfile(self, src, dst, **kw):
        d = self.fs.read_data(src)
        if d is None:
            raise _err(_errno.ENOENT, src)
        tag = self.fs.read_tag(src)
        with self.fs.open(dst, 'wb') as f:
            f.write(d)
            f.node.tag = _copy.deepcopy(tag)
        return dst

    def copystat(self, src, dst, **kw):
        self.fs.chmod(dst, self.fs.stat(src).st_mode & 0o7777)

    def copy2(self, src, dst, **kw):
        self.copyfile(src, dst)
        self.copystat(src, dst)
        return dst

    def copytree(self, src, dst, symlinks=False, copy_function=None, **kw):
        cf = copy_function or self.copy2
        self.fs.mkdir(dst)
        for name in self.fs.listdir(src):
            s = posixpath.join(src, name)
            d = posixpath.join(dst, name)
            if self.fs.islink(s) and symlinks:
                self.fs.symlink(self.fs.readlink(s), d)
            elif self.fs.isdir(s):
                self.copytree(s, d, symlinks, copy_function)
            else:
                cf(s, d)
        return dst

    def move(self, src, dst, copy_function=None):
        real = dst
        if self.fs.isdir(dst):
            real = posixpath.join(dst, posixpath.basename(src.rstrip('/')))
            if self.fs.exists(real):
                raise _err(_errno.EEXIST, real)
        self.fs.rename(src, real)
        return real

    def rmtree(self, p, ignore_errors=False, onerror=None, **kw):
        return self.fs.rmtree(p, ignore_errors)


def _fstat(self, fd):
    return self.fs.fstat(fd)


def _samefile(self, a, b):
    return self.fs.samefile(a, b)


FakeOS.fstat = _fstat
FakePath.samefile = _samefile


# ---------------------------------------------------------------- scandir ----
class FakeDirEntry:
    def __init__(self, fs, dirpath, name, as_bytes):
        self.fs = fs
        self._p = posixpath.join(dirpath, name)
        self.name = name.encode() if as_bytes else name
        self.path = self._p.encode() if as_bytes else self._p

    def is_dir(self, follow_symlinks=True):
        q = self.fs._resolve(self._p, follow=follow_symlinks)
        return q in self.fs.dirs

    def is_file(self, follow_symlinks=True):
        q = self.fs._resolve(self._p, follow=follow_symlinks)
        n = self.fs.names.get(q)
        return n is not None and n.kind == 'f'

    def is_symlink(self):
        n = self.fs.names.get(self.fs._resolve(self._p, follow=False))
        return n is not None and n.kind == 'l'

    def stat(self, follow_symlinks=True):
        return self.fs._stat_of(self.fs._resolve(self._p, follow=follow_symlinks), self._p)


class _ScanIter:
    def __init__(self, entries):
        self.entries = entries

    def __enter__(self):
        return iter(self.entries)

    def __exit__(self, *a):
        return False

    def __iter__(self):
        return iter(self.entries)

    def close(self):
        pass


def _scandir(self, p='.'):
    as_bytes = isinstance(p, bytes)
    q = self.fs.norm(p)
    names = self.fs.listdir(q)
    # directory order is arbitrary on real file systems: reversed here so that code relying
    # on listing order shows up
    return _ScanIter([FakeDirEntry(self.fs, q, n, as_bytes) for n in reversed(names)])


def _readlink(self, p):
    r = self.fs.readlink(p)
    return r.encode() if isinstance(p, bytes) else r


FakeOS.scandir = _scandir
FakeOS.fsencode = staticmethod(lambda s: s.encode() if isinstance(s, str) else s)
FakeOS.fsdecode = staticmethod(lambda s: s.decode() if isinstance(s, bytes) else s)

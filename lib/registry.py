"""property id -> harness modules (engine X: CrossHair) and z modules (engine Z: z3)"""
PROPS = {
    'C06': {'harness': ['harness/C06_sem.py']},
    'C09': {'harness': ['harness/C09_upload.py']},
    'C10': {'harness': ['harness/C10_state.py']},
    'C15': {'harness': ['harness/C15_share.py']},
    'C17': {'harness': ['harness/C17_subst.py']},
}

"""property id -> harness modules (engine X: CrossHair) and z modules (engine Z: z3)"""
PROPS = {
    'C20': {'harness': ['harness/C20_jenkins.py']},
    'C13': {'harness': ['harness/recipe_vars.py']},
    'C02': {'z': [('z/digest.py', ['core-collision']), ('z/scripts.py', ['merge-scripts'])], 'harness': ['harness/recipe_vars.py']},
    'C03': {'z': [('z/digest.py', ['noninterference', 'equivalence'])]},
    'C07': {'z': [('z/digest.py', ['buildid-collision'])]},
    'C06': {'harness': ['harness/C06_sem.py']},
    'C08': {'harness': ['harness/C08_extract.py']},
    'C09': {'harness': ['harness/C09_upload.py']},
    'C10': {'harness': ['harness/C10_state.py']},
    'C11': {'harness': ['harness/C11_dirhash.py']},
    'C14': {'harness': ['harness/C14_audit.py']},
    'C15': {'harness': ['harness/C15_share.py']},
    'C18': {'harness': ['harness/C18_paths.py']},
    'C19': {'harness': ['harness/C19_retain.py']},
    'C16': {'harness': ['harness/C16_dirs.py']},
    'C17': {'harness': ['harness/C17_subst.py']},
}

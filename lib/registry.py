"""property id -> harness modules (engine X: CrossHair) and z modules (engine Z: z3)"""
PROPS = {
    'C17': {'harness': ['harness/C17_subst.py']},
}

"""Property check driver.

  python -m lib.driver C17 [--tier quick|thorough] [--jobs N] [--only fn] [--replay file]

Runs every condition the property's harness modules plan for the tier (one OS
process per CrossHair condition / z3 query batch, all cores), replays every
counterexample on the real code in plain CPython, applies the known-findings file,
writes evidence/<id>.json and exits 0 / 1 (VIOLATION) / 2 (harness error).
"""
import argparse
import concurrent.futures
import hashlib
import json
import os
import subprocess
import sys
import time

from lib import registry

ROOT = os.path.dirname(os.path.dirname(os.path.abspath(__file__)))
PY = sys.executable
REPO = os.environ.get('VERIF_REPO', '/repo')
OUT = os.environ.get('VERIF_OUT', ROOT)   # evidence/ and replay/ live here (development: redirect)


def sh_json(cmd, tag, timeout):
    try:
        p = subprocess.run(cmd, cwd=ROOT, stdout=subprocess.PIPE, stderr=subprocess.PIPE,
                           timeout=timeout, text=True, errors='replace')
    except subprocess.TimeoutExpired:
        return None, 'timeout after %ss' % timeout
    for line in p.stdout.splitlines():
        if line.startswith(tag + ' '):
            try:
                return json.loads(line[len(tag) + 1:]), p.stderr[-2000:]
            except ValueError:
                pass
    return None, (p.stdout[-1500:] + '\n' + p.stderr[-2500:])


def run_condition(c):
    cmd = [PY, '-m', 'lib.xworker', c['module'], c['fn'], '--timeout', str(c['timeout']),
           '--reach-timeout', str(c.get('reach_timeout', 40))]
    if c.get('shard') is not None:
        cmd += ['--shard', json.dumps(c['shard'])]
    if c.get('params'):
        cmd += ['--params', json.dumps(c['params'])]
    if c.get('path_timeout'):
        cmd += ['--path-timeout', str(c['path_timeout'])]
    if c.get('max_uninteresting'):
        cmd += ['--max-uninteresting', str(c['max_uninteresting'])]
    t0 = time.time()
    res, err = sh_json(cmd, 'XRESULT', c['timeout'] * 1.5 + c.get('reach_timeout', 40) + 120)
    if res is None and (err or '').startswith('timeout after'):
        # the worker did not come back within 1.5 x its budget (e.g. a heavily loaded machine): no verdict for this
        # condition = inconclusive, like any other exhausted budget -- never a success, never an alarm
        res = {'module': c['module'], 'fn': c['fn'], 'shard': c.get('shard'), 'params': c.get('params') or {},
               'runs': {'check': {'status': 'unknown', 'message': 'hard ' + err, 'reached': 1}, 'reach': {'status': 'refuted'}}}
    elif res is None:
        res = {'module': c['module'], 'fn': c['fn'], 'shard': c.get('shard'),
               'params': c.get('params') or {},
               'runs': {'check': {'status': 'error', 'message': 'worker died: ' + (err or '')[-1500:]}}}
    res['wall_total_s'] = round(time.time() - t0, 2)
    return res


def run_z(c):
    cmd = [PY, '-m', 'lib.zworker', c['module'], '--tier', c['tier'], '--group', c['group']]
    t0 = time.time()
    res, err = sh_json(cmd, 'ZRESULT', c['timeout'])
    if res is None and (err or '').startswith('timeout after'):
        res = {'module': c['module'], 'group': c['group'], 'queries': [{'name': c['group'] + ' (group budget exhausted)', 'result': 'timeout',
                                                                         'inconclusive': True, 'ms': c['timeout'] * 1000}], 'violations': []}
    elif res is None:
        res = {'module': c['module'], 'group': c['group'], 'error': 'z worker died: ' + (err or '')[-2000:],
               'queries': [], 'violations': []}
    res['wall_total_s'] = round(time.time() - t0, 2)
    return res


def replay(path):
    res, err = sh_json([PY, '-m', 'lib.replay', path], 'REPLAY', 600)
    if res is None:
        return {'reproduced': None, 'real': None, 'detail': 'replay died: ' + (err or '')[-1500:]}
    return res


def src_hash(qualnames):
    """hash of the current source text of the encoded functions' modules"""
    mods = sorted({q.rsplit('.', 1)[0] if q.split('.')[-2][:1].isupper() is False else q.rsplit('.', 2)[0]
                   for q in qualnames})
    out = {}
    for q in qualnames:
        parts = q.split('.')
        # module path = longest prefix that is a file
        for i in range(len(parts), 0, -1):
            f = os.path.join(REPO, 'pym', *parts[:i]) + '.py'
            if os.path.isfile(f):
                if f not in out:
                    out[f] = hashlib.sha1(open(f, 'rb').read()).hexdigest()[:12]
                break
    return {os.path.relpath(k, REPO): v for k, v in out.items()}


def load_known():
    p = os.path.join(ROOT, 'known-findings.json')
    if not os.path.exists(p):
        return []
    return json.load(open(p)).get('findings', [])


def main():
    ap = argparse.ArgumentParser()
    ap.add_argument('prop')
    ap.add_argument('--tier', default=os.environ.get('VERIF_TIER', 'quick'))
    ap.add_argument('--jobs', type=int, default=int(os.environ.get('VERIF_JOBS', os.cpu_count() or 4)))
    ap.add_argument('--only', default=None)
    ap.add_argument('--replay', default=None)
    a = ap.parse_args()
    seed = int(os.environ.get('VERIF_SEED', '0') or 0)

    if a.replay:
        r = replay(a.replay)
        print(json.dumps(r, indent=1))
        if r.get('reproduced'):
            rec = json.load(open(a.replay))
            print('VIOLATION property=%s replay=%s' % (rec.get('property', a.prop), a.replay))
            sys.exit(1)
        sys.exit(0)

    t0 = time.time()
    prop = a.prop
    os.makedirs(os.path.join(OUT, 'replay'), exist_ok=True)
    spec = registry.PROPS[prop]
    sys.path.insert(0, ROOT)
    from lib.xworker import load_module

    conds, zjobs, meta = [], [], {'encoded': [], 'stubs': [], 'assumptions': [], 'bounds': []}
    for hent in spec.get('harness', []):
        m, fnfilter = (hent, None) if isinstance(hent, str) else hent
        mod = load_module(os.path.join(ROOT, m))
        for c in mod.PLAN(a.tier):
            if fnfilter is not None and c['fn'] not in fnfilter:
                continue
            if a.only and a.only not in c['fn']:
                continue
            c = dict(c)
            c['module'] = m
            conds.append(c)
        meta['encoded'] += getattr(mod, 'ENCODED', [])
        meta['stubs'] += getattr(mod, 'STUBS', [])
        meta['assumptions'] += getattr(mod, 'ASSUMPTIONS', [])
        meta['bounds'].append(getattr(mod, 'BOUNDS', ''))
    for zent in spec.get('z', []):
        m, only_groups = (zent, None) if isinstance(zent, str) else zent
        mod = load_module(os.path.join(ROOT, m))
        for g in mod.GROUPS(a.tier):
            if only_groups is not None and g['group'] not in only_groups:
                continue
            if a.only and a.only not in g['group']:
                continue
            zjobs.append({'module': m, 'tier': a.tier, 'group': g['group'], 'timeout': g.get('timeout', 900)})
        meta['encoded'] += getattr(mod, 'ENCODED', [])
        meta['stubs'] += getattr(mod, 'STUBS', [])
        meta['assumptions'] += getattr(mod, 'ASSUMPTIONS', [])
        meta['bounds'].append(getattr(mod, 'BOUNDS', ''))

    known = [k for k in load_known() if k['property'] == prop]
    known_open = [k for k in known if k.get('status') == 'known']

    # longest first for better packing
    conds.sort(key=lambda c: -c['timeout'])
    results, zresults = [], []
    with concurrent.futures.ThreadPoolExecutor(max_workers=a.jobs) as ex:
        futs = [ex.submit(run_z, z) for z in zjobs] + [ex.submit(run_condition, c) for c in conds]
        for f in futs:
            r = f.result()
            (zresults if 'queries' in r else results).append(r)

    violations, kf_hits, errors, inconclusive = [], [], [], []
    reruns = []
    samples = []
    nrep = [0]

    def handle_refuted(r, ck, depth=0):
        nrep[0] += 1
        path = os.path.join(OUT, 'replay', '%s-%d.json' % (prop, nrep[0]))
        rec = {'property': prop, 'module': r['module'], 'fn': r['fn'], 'shard': r.get('shard'),
               'params': r.get('params') or {}, 'message': ck.get('message'),
               'args_repr': ck.get('args_repr'), 'args_pickle': ck.get('args_pickle'),
               'traceback': ck.get('traceback', '')[-1500:]}
        if not rec['args_repr']:
            errors.append('%s%s: refuted without captured arguments: %s' % (r['fn'], r.get('shard'), ck.get('message')))
            return
        json.dump(rec, open(path, 'w'), indent=1)
        rp = replay(path)
        if rp.get('reproduced') and rp.get('real') is not False:
            # known finding?
            mod = load_module(os.path.join(ROOT, r['module']))
            for k in known_open:
                mfn = getattr(mod, k.get('match', ''), None)
                hf = k.get('harness_fn')
                if (r['fn'] == hf or (isinstance(hf, list) and r['fn'] in hf)) and mfn is not None:
                    import base64, pickle
                    args = pickle.loads(base64.b64decode(rec['args_pickle'])) if rec.get('args_pickle') else eval(rec['args_repr'], {})
                    if mfn(**args):
                        kf_hits.append((k, rec))
                        os.unlink(path)
                        # look for OTHER violations: re-run with this finding excluded (next round, in parallel)
                        if depth < 3:
                            c2 = {'module': r['module'], 'fn': r['fn'], 'shard': r.get('shard'),
                                  'timeout': r.get('timeout', 60),
                                  'params': dict(r.get('params') or {})}
                            c2['params']['exclude'] = sorted(set(c2['params'].get('exclude', []) + [k['match']]))
                            reruns.append((c2, depth + 1))
                        return
            violations.append({'replay': path, 'fn': r['fn'], 'shard': r.get('shard'),
                               'message': ck.get('message'), 'replay_detail': rp.get('detail'),
                               'real_env_replay': rp.get('real')})
        else:
            errors.append('%s%s: counterexample did not reproduce in plain CPython (%s): %s' % (
                r['fn'], r.get('shard'), rp.get('detail'), ck.get('message')))

    def process(r, depth=0):
        ck = r['runs'].get('check', {})
        st = ck.get('status')
        if st == 'refuted':
            handle_refuted(r, ck, depth)
        elif st == 'error' or st is None:
            errors.append('%s%s: %s %s' % (r['fn'], r.get('shard'), ck.get('message'), (ck.get('traceback') or '')[-600:]))
        elif st == 'pre_unsat':
            errors.append('%s%s: vacuous (unable to meet precondition)' % (r['fn'], r.get('shard')))
        else:
            if st == 'unknown':
                inconclusive.append('%s%s' % (r['fn'], r.get('shard')))
            rc = r['runs'].get('reach', {})
            if ck.get('reached', 0) == 0 and rc.get('status') != 'refuted':
                if st == 'confirmed':
                    errors.append('%s%s: vacuous harness: no path reached the oracle' % (r['fn'], r.get('shard')))
            if rc.get('status') == 'refuted' and rc.get('args_repr') and len(samples) < 12:
                samples.append({'condition': '%s%s' % (r['fn'], r.get('shard')), 'witness_reaching_oracle': rc['args_repr'][:300]})

    for r in list(results):
        process(r)
    while reruns:
        batch, reruns[:] = list(reruns), []
        with concurrent.futures.ThreadPoolExecutor(max_workers=a.jobs) as ex:
            futs = [(ex.submit(run_condition, c2), d) for (c2, d) in batch]
            for f, d in futs:
                r2 = f.result()
                r2['rerun_excluding'] = r2.get('params', {}).get('exclude')
                results.append(r2)
                process(r2, d)

    zq = 0
    zsolver = 0.0
    for z in zresults:
        if z.get('error'):
            errors.append('z %s/%s: %s' % (z['module'], z['group'], z['error']))
        for q in z['queries']:
            zq += 1
            zsolver += q.get('ms', 0) / 1000.0
            if q.get('result') not in ('unsat', 'sat') or q.get('inconclusive'):
                inconclusive.append('z:' + q['name'])
        for v in z.get('violations', []):
            matched = None
            for k in known_open:
                if k.get('z_signature') and k['z_signature'] == v.get('signature'):
                    matched = k
            if matched:
                kf_hits.append((matched, v))
                continue
            nrep[0] += 1
            path = os.path.join(OUT, 'replay', '%s-%d.json' % (prop, nrep[0]))
            json.dump(dict(v, property=prop, module=z['module'], group=z['group']), open(path, 'w'), indent=1, default=str)
            if v.get('reproduced'):
                violations.append({'replay': path, 'fn': z['group'], 'message': v.get('what'),
                                   'real_env_replay': True})
            else:
                errors.append('z %s: model did not reproduce on real code: %s' % (z['group'], v.get('what')))
        for s in z.get('samples', [])[:4]:
            if len(samples) < 16:
                samples.append(s)

    # ---------------------------------------------------------------- evidence
    checks = [r['runs'].get('check', {}) for r in results]
    paths = sum(c.get('paths', 0) for c in checks)
    nfacts = sum(c.get('n_facts', 0) for c in checks)
    sq = sum(c.get('solver_queries', 0) for c in checks) + sum(r['runs'].get('reach', {}).get('solver_queries', 0) for r in results)
    ss = sum(c.get('solver_s', 0) for c in checks)
    cpu = sum(c.get('cpu_s', 0) for c in checks)
    confirmed = sum(1 for c in checks if c.get('status') == 'confirmed')
    per_cond = []
    for r in results:
        ck = r['runs'].get('check', {})
        rc = r['runs'].get('reach', {})
        per_cond.append({'fn': r['fn'], 'shard': r.get('shard'), 'params': r.get('params') or None,
                         'verdict': ck.get('status'), 'paths': ck.get('paths'),
                         'solver_queries': ck.get('solver_queries'), 'solver_s': ck.get('solver_s'),
                         'cpu_s': ck.get('cpu_s'), 'twin': rc.get('status'),
                         'outcome_classes': ck.get('facts', [])[:8]})
    zsum = [{'group': z['group'], 'queries': len(z['queries']),
             'unsat': sum(1 for q in z['queries'] if q.get('result') == 'unsat'),
             'sat': sum(1 for q in z['queries'] if q.get('result') == 'sat'),
             'other': sum(1 for q in z['queries'] if q.get('result') not in ('sat', 'unsat')),
             'solver_s': round(sum(q.get('ms', 0) for q in z['queries']) / 1000.0, 2),
             'validation': z.get('validation'), 'detail': z['queries'][:40]} for z in zresults]
    znontriv = sum(z.get('distinct_nontrivial', 0) for z in zresults)
    exhaustive = (not inconclusive) and not errors and confirmed == len([c for c in checks]) \
        and all(q.get('result') in ('unsat', 'sat') for z in zresults for q in z['queries'])
    if not samples:
        samples = [{'note': 'no twin witness collected'}]
    ev = {
        'property_id': prop, 'tier': a.tier, 'seed': seed, 'level': 'other',
        'coverage': {
            'explanation': 'Bounded solver-based check of the real code in %s/pym: harness functions run the '
                           'implementation on symbolic inputs under CrossHair (z3 decides every branch; a condition '
                           'is "confirmed" only when every path within the stated bound was explored and the oracle '
                           'held on all of them) and/or z3 queries over pre-image terms recorded by running the real '
                           'digest code on symbolic strings. Nothing is claimed outside the bounds.' % REPO,
            'evaluations': paths + zq,
            'distinct_nontrivial': nfacts + znontriv,
            'rule': 'evaluations = symbolic execution paths completed (each path is one solver-decided equivalence class '
                    'of inputs) + z3 queries discharged; distinct_nontrivial = distinct (condition, outcome-class) pairs '
                    'whose path reached the oracle (outcome class = concrete facts the harness logs, e.g. value/ParseError, '
                    'crash/no crash) + distinct z3 query shapes answered',
            'samples': samples,
            'exhaustive': bool(exhaustive),
            'exhaustive_note': 'true = every planned condition was confirmed over all paths / every query answered, within the bounds below',
            'functions_encoded': sorted(set(meta['encoded'])),
            'source_hashes': src_hash(meta['encoded']),
            'bounds': [b for b in meta['bounds'] if b],
            'stubs': meta['stubs'],
            'conditions_total': len(results), 'conditions_confirmed': confirmed,
            'conditions_inconclusive': inconclusive,
            'solver_queries': sq + zq, 'solver_s': round(ss + zsolver, 2), 'cpu_s': round(cpu, 1),
            'conditions': per_cond, 'z3_groups': zsum,
            'known_findings_hit': [k['id'] for k, _ in kf_hits],
            'harness_errors': errors,
        },
        'assumptions': meta['assumptions'] + ['SHA-1/MD5 collision freedom where digests are compared',
                                              'CrossHair 0.0.110 + z3 model Python semantics faithfully (every counterexample is re-executed in plain CPython before it is reported)'],
        'wall_s': round(time.time() - t0, 1),
        'violations': len(violations),
    }
    os.makedirs(os.path.join(OUT, 'evidence'), exist_ok=True)
    json.dump(ev, open(os.path.join(OUT, 'evidence', prop + '.json'), 'w'), indent=1)

    print('%s tier=%s conditions=%d confirmed=%d inconclusive=%d paths=%d zqueries=%d solver_s=%.1f wall=%.0fs' % (
        prop, a.tier, len(results), confirmed, len(inconclusive), paths, zq, ss + zsolver, time.time() - t0))
    seen_kf = set()
    for k, rec in kf_hits:
        if k['id'] in seen_kf:
            continue
        seen_kf.add(k['id'])
        print('KNOWN-FINDING: property=%s %s' % (prop, k['what']))
    for e in errors:
        print('HARNESS-ERROR: ' + e[:1500])
    for v in violations:
        print('  counterexample: %s%s %s' % (v['fn'], v.get('shard') or '', v['message']))
        print('VIOLATION property=%s replay=%s' % (prop, v['replay']))
    if violations:
        sys.exit(1)
    if errors:
        sys.exit(2)
    sys.exit(0)


if __name__ == '__main__':
    main()

"""Run one group of z3 queries of a Z module and print a JSON result line.

  python -m lib.zworker z/digest.py --tier quick --group C02-collision

A Z module offers GROUPS(tier) -> [{'group': name, 'timeout': s}] and
RUN(group, tier, Q) where Q is a QueryLog: Q.check(name, solver_or_assertions,
expect) runs the query (per-query timeout), records result and time; RUN reports
violations (with a replay on the real code) via Q.violation(...).
"""
import argparse
import json
import os
import sys
import time
import traceback

import z3


class QueryLog:
    def __init__(self, per_query_ms=60000):
        self.queries = []
        self.violations = []
        self.samples = []
        self.validation = {}
        self.shapes = set()
        self.per_query_ms = per_query_ms

    def check(self, name, assertions, expect='unsat', shape=None):
        s = z3.Solver()
        s.set('timeout', self.per_query_ms)
        for a in assertions:
            s.add(a)
        t0 = time.time()
        r = str(s.check())
        ms = int((time.time() - t0) * 1000)
        q = {'name': name, 'expect': expect, 'result': r, 'ms': ms}
        if r not in ('sat', 'unsat'):
            q['inconclusive'] = True
        self.queries.append(q)
        if shape is not None:
            self.shapes.add(shape)
        return r, (s.model() if r == 'sat' else None)

    def violation(self, what, signature, witness, reproduced):
        self.violations.append({'what': what, 'signature': signature, 'witness': witness,
                                'reproduced': bool(reproduced)})

    def sample(self, s):
        if len(self.samples) < 6:
            self.samples.append(s)


def main():
    ap = argparse.ArgumentParser()
    ap.add_argument('module')
    ap.add_argument('--tier', default='quick')
    ap.add_argument('--group', required=True)
    a = ap.parse_args()
    from lib.xworker import load_module
    out = {'module': a.module, 'group': a.group, 'queries': [], 'violations': []}
    t0 = time.time()
    try:
        mod = load_module(a.module)
        Q = QueryLog()
        mod.RUN(a.group, a.tier, Q)
        out['queries'] = Q.queries
        out['violations'] = Q.violations
        out['samples'] = Q.samples
        out['validation'] = Q.validation
        out['distinct_nontrivial'] = len(Q.shapes) if Q.shapes else len(Q.queries)
    except BaseException as e:
        out['error'] = repr(e) + '\n' + traceback.format_exc()[-2500:]
    out['wall_s'] = round(time.time() - t0, 2)
    sys.stdout.write('\nZRESULT ' + json.dumps(out, default=str) + '\n')
    sys.stdout.flush()
    os._exit(0)


if __name__ == '__main__':
    main()

"""Harness-side helper shared by all harness modules.

A harness function `check_x(sym args) -> bool` ends with `return V.verdict(ok, *facts)`.

MODE == 'check' : verdict() returns `ok`            (the property assertion)
MODE == 'reach' : verdict() returns False            (vacuity twin: the solver must
                                                       produce a path that reaches the
                                                       oracle, otherwise the harness is
                                                       vacuous)
SHARD            : optional shard selector read by `pre:` lines of a harness.
Counters are plain Python side effects nothing branches on.
"""
import collections
import os

MODE = 'check'
SHARD = None
PARAMS = {}          # per-condition parameters (bounds) set by the worker
STATS = {'calls': 0, 'reached': 0}
FACTS = collections.Counter()
REPO = os.environ.get('VERIF_REPO', '/repo')


class HarnessGap(BaseException):
    """The stub environment met something it does not model: never a verdict."""


def enter():
    STATS['calls'] += 1


_PLAIN = (str, int, bool, bytes, float, type(None))


def _clean(facts):
    """facts are logged only when they are plain concrete values; a symbolic value is
    never realised for logging (that would add solver decisions) but shown as <sym>"""
    try:
        from crosshair.tracers import NoTracing
        with NoTracing():
            return tuple(f if type(f) in _PLAIN else '<sym>' for f in facts)
    except Exception:
        return tuple(f if type(f) in _PLAIN else '<sym>' for f in facts)


def note(*facts):
    FACTS[_clean(facts)] += 1


def verdict(ok, *facts):
    STATS['reached'] += 1
    if facts:
        FACTS[_clean(facts)] += 1
    if MODE == 'reach':
        return False
    return ok


def param(name, default=None):
    return PARAMS.get(name, default)


# ---------------------------------------------------------------------------
# Tracing control.  CrossHair interprets every byte code of traced code.  Code
# regions into which no symbolic value flows (real Bob code working on concrete
# dictionaries / bytes, the stub file system's bookkeeping) are run with tracing
# suspended; the symbolic decisions (crash index, fault index, schedule choice,
# torn mode) are taken at the environment boundary inside `traced()` sections.
# Outside CrossHair (plain replay) both are no-ops.
class _Null:
    def __enter__(self):
        return self

    def __exit__(self, *a):
        return False


def _tracing_active():
    try:
        from crosshair.tracers import is_tracing
        return is_tracing()
    except Exception:
        return False


def fast():
    try:
        from crosshair.tracers import NoTracing, is_tracing
        if is_tracing():
            return NoTracing()
    except Exception:
        pass
    return _Null()


def traced():
    try:
        from crosshair.tracers import ResumedTracing, is_tracing
        from crosshair.statespace import optional_context_statespace
        if (not is_tracing()) and optional_context_statespace() is not None:
            return ResumedTracing()
    except Exception:
        pass
    return _Null()


def concretize(x, n, lo=0):
    """case-split a symbolic int with lo <= x < n into a concrete int (one solver
    decision per value)"""
    for k in range(lo, n):
        if x == k:
            return k
    raise HarnessGap('concretize: value outside [%d,%d)' % (lo, n))


def sym_eq(a, b):
    """a == b decided by the solver even when called from a fast() region"""
    with traced():
        if a == b:
            return True
        return False


def sym_pick(c, m):
    """schedule choice: symbolic c selects one of m enabled actions (solver decision per
    alternative)"""
    with traced():
        for j in range(m - 1):
            if c == j:
                return j
        return m - 1          # every other value selects the last alternative (no wasted path)

"""Harness-side helper shared by all harness modules.

A harness function `check_x(sym args) -> bool` ends with `return V.verdict(ok, *facts)`.

MODE == 'check' : verdict() returns `ok`            (the property assertion)
MODE == 'reach' : verdict() returns False            (vacuity twin: the solver must
                                                       produce a path that reaches the
                                                       oracle, otherwise the harness is
                                                       vacuous)
SHARD            : optional shard selector read by `pre:` lines of a harness.
Counters are plain Python side effects nothing branches on.
"""
import collections
import os

MODE = 'check'
SHARD = None
PARAMS = {}          # per-condition parameters (bounds) set by the worker
STATS = {'calls': 0, 'reached': 0}
FACTS = collections.Counter()
REPO = os.environ.get('VERIF_REPO', '/repo')


class HarnessGap(BaseException):
    """The stub environment met something it does not model: never a verdict."""


def enter():
    STATS['calls'] += 1


def note(*facts):
    """record concrete facts (must not contain symbolic values)"""
    FACTS[tuple(facts)] += 1


def verdict(ok, *facts):
    STATS['reached'] += 1
    if facts:
        FACTS[tuple(facts)] += 1
    if MODE == 'reach':
        return False
    return ok


def param(name, default=None):
    return PARAMS.get(name, default)

#!/usr/bin/env python3
"""Regenerate MANIFEST.json from lib/registry.py + tools/manifest_data.py"""
import json, os, sys
ROOT = os.path.dirname(os.path.dirname(os.path.abspath(__file__)))
sys.path.insert(0, ROOT)
from tools import manifest_data as D
props = [json.loads(l) for l in open(os.path.join(ROOT, 'properties.jsonl'))]
checks, na = [], []
for p in props:
    i = p['id']
    if i in D.CLAIMS:
        c = D.CLAIMS[i]
        checks.append({
            'property_id': i,
            'quick_cmd': './check %s --tier quick' % i,
            'thorough_cmd': './check %s --tier thorough' % i,
            'evidence_file': 'evidence/%s.json' % i,
            'replay_cmd_template': './check %s --replay {path}' % i,
            'engine': c['engine'],
            'level_claimed': {'category': 'other', 'text': c['text'], 'design_ref': c['design_ref']},
            'level_note': c['note'],
            'technique': c['technique'],
        })
    else:
        na.append({'property_id': i, 'reason': D.NOT_APPLICABLE.get(i, 'check not built yet (work in progress; see DESIGN.md section 4 for the plan)')})
m = {
    'version': 1,
    'setup_cmd': './setup.sh',
    'hooks': {'guard': 'BOB_VERIF', 'enable': 'no source hooks: the harnesses re-bind module globals of the imported bob modules (os, open, hashlib, ...) from outside; BOB_VERIF=1 is exported by ./check for completeness',
              'baseline_off_cmd': 'cd /repo && /venv/bin/python -m pytest -ra -q -p no:cacheprovider --timeout=900 --continue-on-collection-errors',
              'source_commits': [], 'add_only': True},
    'engines': D.ENGINES,
    'checks': checks,
    'not_applicable': na,
    'notes': D.NOTES,
}
json.dump(m, open(os.path.join(ROOT, 'MANIFEST.json'), 'w'), indent=1)
print('checks', len(checks), 'not_applicable', len(na))

#!/bin/bash
# usage: run_baseline.sh <repo-dir> ; runs the pinned test-suite there and reports
# whether every test of BASELINE.stable_pass passed.  exit 0 = all stable tests pass.
D=${1:-/repo}
OUT=$(mktemp /tmp/baseline.XXXXXX.xml)
( cd "$D" && PYTHONPATH="$D/pym" /venv/bin/python -m pytest -ra -q -p no:cacheprovider --timeout=900 \
    --continue-on-collection-errors --junitxml=$OUT >/dev/null 2>&1 )
python3 - "$OUT" <<'PY'
import json, sys, xml.etree.ElementTree as ET
b = json.load(open('/root/.vp/BASELINE.json'))
want = set(b['stable_pass'])
got = {}
for tc in ET.parse(sys.argv[1]).getroot().iter('testcase'):
    name = tc.get('classname') + '::' + tc.get('name')
    bad = any(c.tag in ('failure', 'error', 'skipped') for c in tc)
    got[name] = not bad
missing = [t for t in want if not got.get(t)]
print('stable_pass=%d passed=%d failing_or_missing=%d' % (len(want), sum(1 for t in want if got.get(t)), len(missing)))
for t in missing[:20]: print('  FAIL', t)
sys.exit(1 if missing else 0)
PY
rc=$?
rm -f $OUT
exit $rc

#!/bin/bash
# usage: tools/seedtest.sh <seeded-dir-name> [check args...]
# Applies seeded/<name>/patch.diff to a scratch worktree of /repo HEAD (outside /repo
# and /verif), runs the demonstration (must FAIL with the patch) and the property's
# quick check against that tree (VERIF_REPO), then removes the worktree.
# Prints: SEED <name> demo_rc=<rc> check_rc=<rc> (check_rc 1 = detected)
set -u
N=$1; shift
D=/verif/seeded/$N
P=${SEED_PROP:-$(python3 -c "import json;print(json.load(open('$D/meta.json'))['property'])")}
W=$(mktemp -d /var/tmp/seed.XXXXXX)
rmdir $W
git -C /repo worktree add -q --detach $W HEAD || exit 9
trap 'git -C /repo worktree remove --force $W >/dev/null 2>&1' EXIT
if ! git -C $W apply $D/patch.diff; then echo "SEED $N patch does not apply"; exit 9; fi
DEMO_RC=-
if [ -f $D/demo.py ]; then
    BOB_TREE=$W /venv/bin/python $D/demo.py >/tmp/seed-demo-$N.log 2>&1; DEMO_RC=$?
fi
mkdir -p /tmp/seedrun
# run the check with its own evidence/replay dirs untouched: work on a copy of /verif scripts
VERIF_OUT=/tmp/seedrun/$N VERIF_REPO=$W /verif/check $P "$@" > /tmp/seedrun/$N.log 2>&1; RC=$?
grep -E "VIOLATION|HARNESS-ERROR|KNOWN-FINDING|counterexample" /tmp/seedrun/$N.log | head -8
tail -1 /tmp/seedrun/$N.log
echo "SEED $N demo_rc=$DEMO_RC check_rc=$RC"

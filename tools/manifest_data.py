ENGINES = [
    {'name': 'X', 'path': 'lib/xworker.py', 'kind_free_text': 'CrossHair 0.0.110 symbolic execution of the real Python functions (z3 decides every branch), one OS process per condition, vacuity twin per condition, plain-CPython replay of every counterexample',
     'serves_properties': ['C10', 'C17']},
]
NOTES = ('Technique family: solver-based checking of the real code. Every result is bounded; bounds, stubs and '
         'assumptions are in evidence/<id>.json and DESIGN.md. Exit 2 of ./check = harness error (never a verdict).')
CLAIMS = {
    'C10': dict(
        engine='X',
        technique='symbolic fault plan (crash index, torn-write image) over the real _BobState persistence code on a stub POSIX file system; CrossHair+z3 decide crash points and operation sequences; bounded',
        text='For every sequence of <= 2 (quick) / 3 (thorough) state-mutating API calls out of 16 kinds (incl. invocation boundaries and asynchronous sections), '
             'a crash before every mutating file-system operation and every modelled power-loss image of not-fsynced files, a fresh _BobState starts without error '
             'and holds exactly one saved snapshot that is not older than the last completed invocation; all state-file mutations happen while the lock is held; '
             'a second instance is refused while the lock exists.',
        design_ref='DESIGN.md section 4, C10',
        note='Trusted: lib/symfs.py POSIX model (atomic rename, ordered metadata, unsynced data may be lost), torn images limited to full/none/6 prefix cuts/6 single-byte garbles. '
             'Outside: sqlite build-id cache, Windows replacePath retry loop, real signals.'),
    'C17': dict(
        engine='X',
        technique='symbolic execution (CrossHair+z3) of Env.substitute/StringParser/IfExpression against an independent reference interpreter; bounded string length',
        text='For every Unicode string up to the stated length (and every filling of the syntactic templates / IfExpression skeletons '
             'with symbolic strings) and every set/empty/unset environment, the real substitution code returns exactly the value of '
             'the documented language or a ParseError, never an internal exception. "Confirmed" = all paths within the bound explored; '
             'conditions that hit their time budget are reported inconclusive, never as verified.',
        design_ref='DESIGN.md section 4, C17',
        note='Trusted: specs/subst_ref.py (reference written from doc/manual/configuration.rst), CrossHair/z3 string theory '
             '(counterexamples are replayed in plain CPython). Outside: regex functions match/resubst/matchScm, strings longer than the bound, '
             'pyparsing text->AST step of IfExpression (skeletons are parsed by the real grammar but only enumerated).'),
}
NOT_APPLICABLE = {}

ENGINES = [
    {'name': 'X', 'path': 'lib/xworker.py', 'kind_free_text': 'CrossHair 0.0.110 symbolic execution of the real Python functions (z3 decides every branch), one OS process per condition, vacuity twin per condition, plain-CPython replay of every counterexample',
     'serves_properties': ['C06', 'C10', 'C17']},
]
NOTES = ('Technique family: solver-based checking of the real code. Every result is bounded; bounds, stubs and '
         'assumptions are in evidence/<id>.json and DESIGN.md. Exit 2 of ./check = harness error (never a verdict).')
CLAIMS = {
    'C06': dict(
        engine='X',
        technique='bounded symbolic schedule exploration (CrossHair+z3 choose every scheduling decision) of the real JobServerSemaphore coroutines on a stub event loop and pipe',
        text='For k<=4 tasks x <=2 rounds (plain acquire/job/release and the yield-job pattern), n<=2 tokens, internal and external (recursive) job server mode and one '
             'foreign take/give of a token, EVERY schedule prefix of S steps followed by a fair completion satisfies: running jobs <= tokens (+1 implicit slot), '
             'no exception, no lost wake-up (run completes), all tokens back in the pipe and none duplicated. Part of the property only: the cook/_cookStep orchestration '
             '(dependency order, keep-going, one execution per workspace) is not covered yet.',
        design_ref='DESIGN.md section 4, C06',
        note='Trusted: stub loop/pipe semantics (any enabled action may run next: superset of asyncio orders), real asyncio.Semaphore. Outside: task cancellation (aborted builds), '
             'Windows BoundedSemaphore branch, schedules longer than the bound, the orchestration half of the property.'),
    'C10': dict(
        engine='X',
        technique='symbolic fault plan (crash index, torn-write image) over the real _BobState persistence code on a stub POSIX file system; CrossHair+z3 decide crash points and operation sequences; bounded',
        text='For every sequence of <= 2 (quick) / 3 (thorough) state-mutating API calls out of 16 kinds (incl. invocation boundaries and asynchronous sections), '
             'a crash before every mutating file-system operation and every modelled power-loss image of not-fsynced files, a fresh _BobState starts without error '
             'and holds exactly one saved snapshot that is not older than the last completed invocation; all state-file mutations happen while the lock is held; '
             'a second instance is refused while the lock exists.',
        design_ref='DESIGN.md section 4, C10',
        note='Trusted: lib/symfs.py POSIX model (atomic rename, ordered metadata, unsynced data may be lost), torn images limited to full/none/6 prefix cuts/6 single-byte garbles. '
             'Outside: sqlite build-id cache, Windows replacePath retry loop, real signals.'),
    'C17': dict(
        engine='X',
        technique='symbolic execution (CrossHair+z3) of Env.substitute/StringParser/IfExpression against an independent reference interpreter; bounded string length',
        text='For every Unicode string up to the stated length (and every filling of the syntactic templates / IfExpression skeletons '
             'with symbolic strings) and every set/empty/unset environment, the real substitution code returns exactly the value of '
             'the documented language or a ParseError, never an internal exception. "Confirmed" = all paths within the bound explored; '
             'conditions that hit their time budget are reported inconclusive, never as verified.',
        design_ref='DESIGN.md section 4, C17',
        note='Trusted: specs/subst_ref.py (reference written from doc/manual/configuration.rst), CrossHair/z3 string theory '
             '(counterexamples are replayed in plain CPython). Outside: regex functions match/resubst/matchScm, strings longer than the bound, '
             'pyparsing text->AST step of IfExpression (skeletons are parsed by the real grammar but only enumerated).'),
}
NOT_APPLICABLE = {}

ENGINES = [
    {'name': 'X', 'path': 'lib/xworker.py', 'kind_free_text': 'CrossHair 0.0.110 symbolic execution of the real Python functions (z3 decides every branch), one OS process per condition, vacuity twin per condition, plain-CPython replay of every counterexample',
     'serves_properties': ['C06', 'C09', 'C10', 'C15', 'C17']},
]
NOTES = ('Technique family: solver-based checking of the real code. Every result is bounded; bounds, stubs and '
         'assumptions are in evidence/<id>.json and DESIGN.md. Exit 2 of ./check = harness error (never a verdict).')
CLAIMS = {
    'C15': dict(
        engine='X',
        technique='symbolic execution (CrossHair+z3) of LocalShare.gc/install/use from an arbitrary valid store with symbolic sizes/quota/flags, plus bounded symbolic interleavings of two store operations with an flock model',
        text='(a) From every valid store with <= 2 (quick) / 3 (thorough) packages (symbolic sizes and quota, all presence/used/age shapes, incl. store missing and store still empty) one gc / install / use '
             'leaves a valid store (repo.json = sum of installed packages, visible packages complete with matching hash), never removes a used package unless forced, removes unused packages oldest '
             'usage first and not more than needed in automatic cleaning, does nothing with --dry-run, never raises except the documented BuildError causes. (b) install||install, install||gc, use||gc, '
             'install||use, first-install||gc: every interleaving of their shared operations keeps these invariants, installs at most once, hands no collected package to a user, and does not deadlock.',
        design_ref='DESIGN.md section 4, C15',
        note='Trusted: SymFS + flock model, object codec instead of json, SymFS-level shutil/tempfile, token hash instead of hashDirectoryWithSize. Outside: builder-side symlink bookkeeping '
             '(_useSharedPackage/_installSharedPackage), Windows branch, > 2 concurrent processes. The ordering of `bob clean --shared --used/--all-unused` is not part of the statement (see DESIGN.md observation).'),
    'C09': dict(
        engine='X',
        technique='bounded symbolic interleaving + fault plan (CrossHair+z3 choose schedule, crash index, I/O-error index) over the real LocalArchive upload/mirror code run as replayable processes on a stub POSIX file system',
        text='For two uploaders of one Build-Id with different payloads, a cache-mirroring downloader (strict and nofail cache) and metadata uploads: in EVERY interleaving of their '
             'shared file-system operations, with a kill at every operation or an injected EIO/ENOSPC at every operation of one party, a reader sees under the artifact name nothing '
             'or one complete artifact whose inode and content never change afterwards; a failed upload publishes nothing; metadata files are never partial under their final name.',
        design_ref='DESIGN.md section 4, C09',
        note='Trusted: lib/symfs.py + lib/procs.py (atomic link/rename/unlink, EEXIST on link), operations on a process-private temp file are not scheduling points (they commute). '
             'TarHelper._pack is replaced by a 3-chunk writer. Outside: HTTP/Azure/custom back-ends, Windows rename branch, more than 2 concurrent writers.'),
    'C06': dict(
        engine='X',
        technique='bounded symbolic schedule exploration (CrossHair+z3 choose every scheduling decision) of the real JobServerSemaphore coroutines on a stub event loop and pipe',
        text='For k<=4 tasks x <=2 rounds (plain acquire/job/release and the yield-job pattern), n<=2 tokens, internal and external (recursive) job server mode and one '
             'foreign take/give of a token, EVERY schedule prefix of S steps followed by a fair completion satisfies: running jobs <= tokens (+1 implicit slot), '
             'no exception, no lost wake-up (run completes), all tokens back in the pipe and none duplicated. Part of the property only: the cook/_cookStep orchestration '
             '(dependency order, keep-going, one execution per workspace) is not covered yet.',
        design_ref='DESIGN.md section 4, C06',
        note='Trusted: stub loop/pipe semantics (any enabled action may run next: superset of asyncio orders), real asyncio.Semaphore. Outside: task cancellation (aborted builds), '
             'Windows BoundedSemaphore branch, schedules longer than the bound, the orchestration half of the property.'),
    'C10': dict(
        engine='X',
        technique='symbolic fault plan (crash index, torn-write image) over the real _BobState persistence code on a stub POSIX file system; CrossHair+z3 decide crash points and operation sequences; bounded',
        text='For every sequence of <= 2 (quick) / 3 (thorough) state-mutating API calls out of 16 kinds (incl. invocation boundaries and asynchronous sections), '
             'a crash before every mutating file-system operation and every modelled power-loss image of not-fsynced files, a fresh _BobState starts without error '
             'and holds exactly one saved snapshot that is not older than the last completed invocation; all state-file mutations happen while the lock is held; '
             'a second instance is refused while the lock exists.',
        design_ref='DESIGN.md section 4, C10',
        note='Trusted: lib/symfs.py POSIX model (atomic rename, ordered metadata, unsynced data may be lost), torn images limited to full/none/6 prefix cuts/6 single-byte garbles. '
             'Outside: sqlite build-id cache, Windows replacePath retry loop, real signals.'),
    'C17': dict(
        engine='X',
        technique='symbolic execution (CrossHair+z3) of Env.substitute/StringParser/IfExpression against an independent reference interpreter; bounded string length',
        text='For every Unicode string up to the stated length (and every filling of the syntactic templates / IfExpression skeletons '
             'with symbolic strings) and every set/empty/unset environment, the real substitution code returns exactly the value of '
             'the documented language or a ParseError, never an internal exception. "Confirmed" = all paths within the bound explored; '
             'conditions that hit their time budget are reported inconclusive, never as verified.',
        design_ref='DESIGN.md section 4, C17',
        note='Trusted: specs/subst_ref.py (reference written from doc/manual/configuration.rst), CrossHair/z3 string theory '
             '(counterexamples are replayed in plain CPython). Outside: regex functions match/resubst/matchScm, strings longer than the bound, '
             'pyparsing text->AST step of IfExpression (skeletons are parsed by the real grammar but only enumerated).'),
}
NOT_APPLICABLE = {}

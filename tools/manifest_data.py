ENGINES = [
    {'name': 'X', 'path': 'lib/xworker.py', 'kind_free_text': 'CrossHair 0.0.110 symbolic execution of the real Python functions (z3 decides every branch), one OS process per condition, vacuity twin per condition, plain-CPython replay of every counterexample',
     'serves_properties': ['C01', 'C02', 'C03', 'C04', 'C05', 'C06', 'C07', 'C08', 'C09', 'C10', 'C11', 'C12', 'C13', 'C14', 'C15', 'C16', 'C17', 'C18', 'C19', 'C20']},
    {'name': 'Z', 'path': 'lib/zworker.py', 'kind_free_text': 'z3 sequence-theory queries over SHA-1 pre-image terms recorded by executing the real digest code on symbolic strings (lib/zsym.py); sat models replayed on the real functions with the real hashlib',
     'serves_properties': ['C02', 'C03', 'C07', 'C11']},
]
NOTES = ('Technique family: solver-based checking of the real code. Every result is bounded; bounds, stubs and '
         'assumptions are in evidence/<id>.json and DESIGN.md. Exit 2 of ./check = harness error (never a verdict).')
CLAIMS = {
    'C01': dict(
        engine='X',
        technique='CrossHair+z3 enumeration of edit histories through real in-process bob dev / bob build invocations (real parser, ids, directory oracle, state, cook logic, directory hashing) with a deterministic script model, compared with a clean build by the same real code',
        text='For every history of <= 2 (quick) / 3 (thorough) edits out of 12 kinds (script texts of recipe and class, strong and weak variable values, consumed-variable list, checkout script, dependency add/remove, '
             're-parameterised second variant, a user edit in a source workspace) on the project app -> {lib, mid -> lib}, in develop and release mode: after each incremental build every package result (full directory content) equals the result of a '
             'from-scratch build of the same project state, no build/package workspace was reused for a different script without being emptied, every visited workspace has a truthful audit trail, and an immediately '
             'repeated build executes no step at all.',
        design_ref='DESIGN.md section 4, C01',
        note='Trusted: the script model (output = hash of script, strong environment, argument results). Outside: real script execution, import/git/url sources, -j (see C06), downloads, '
             'projects beyond the one modelled.'),
    'C05': dict(
        engine='X',
        technique='CrossHair+z3 enumeration of abort plans (failing / killed step, kill before the n-th persistent-state save, failing audit write) through real in-process bob invocations, followed by a fault-free invocation compared with a clean build',
        text='For every edit kind (13, incl. user edits of the sources), abort in the first build of a fresh workspace or in the rebuild after the edit, abort = script fails after partial output in any of 8 steps / process killed inside any of the 8 steps / '
             'process killed immediately before or immediately after any of the first 20 (thorough 60) saves of the workspace state / the script interpreter killed by a signal / audit trail cannot be written: the next invocation (stale lock removed) completes, every package result equals a clean build, every '
             'visited workspace has a truthful audit trail and a repeated build executes nothing.',
        design_ref='DESIGN.md section 4, C05',
        note='Trusted: script model, kill = BaseException raised at the kill point with all later state saves of that invocation suppressed. Outside: torn state files (C10), kills inside SCM commands, downloads, two consecutive aborts (thorough only).'),
    'C14': dict(
        engine='X',
        technique='CrossHair+z3 enumeration of dependency structures and -M settings through the real LocalBuilder._generateAudit and bob.audit code (real json/gzip/pickle files in a scratch directory)',
        text='For 4 steps where every later step uses every earlier one as nothing / argument / tool / sandbox, every subset of user meta variables incl. the names Bob reserves, executed or not: the audit trail written for a step '
             'carries exactly the ids and result hash passed, the real recipe/package/step names (user variables cannot override them), the meta environment, its direct dependencies, and the records of exactly its transitive '
             'dependencies (closed: the real __validate passes and an independent closure computation agrees); the records inside are the dependencies own records; the artifact id does not depend on key order. '
             'Not covered: SCM audit records (git/url/import sub-processes), schema conformance, "every visited workspace has an audit trail" over build histories.',
        design_ref='DESIGN.md section 4, C14',
        note='Trusted: stub steps. Outside: GitAudit/UrlAudit scanners, audit generation ordering inside the cook functions (world harness).'),
    'C20': dict(
        engine='X',
        technique='CrossHair+z3 enumeration of recipe graphs (dependency kinds symbolic) through the real Jenkins job name calculation, job population and build order code on stub packages; CrossHair+z3 enumeration of generated real '
                  'projects through the real PartialIR serialisation round trip (json) and the real job generation',
        text='(1) Job graph: for root + three variants of one recipe + a second recipe + a tool package existing inside and outside a sandbox, with every dependency kind (none/argument/tool) between the packages in index '
             'order, root dependency subsets/orders, sandbox use and an isolate pattern: the job graph is acyclic (genJenkinsBuildOrder succeeds and is topological), every reachable package step is built by exactly one job, '
             'every step is in a job, and each job lists the jobs of all its arguments, tools and sandbox as upstream. (2) Fidelity: for generated real projects (tools strong/weak, sandbox, multiPackage variants, a package built '
             'inside and outside the sandbox, hostile variable values, fingerprinted tool; 9 feature bits) the job specification PartialIR.add -> toData -> json -> fromData reproduces for every package: Variant-Ids, scripts, '
             'environment, tools (path, libs, provider), arguments in order, sandbox, determinism flags of all its steps and the identity (id, workspace, sandbox) of its dependencies; the Build-Id computed on the '
             'reconstruction equals the one a local build computes; the job oracles of (1) hold on the real packages.',
        design_ref='DESIGN.md section 4, C20',
        note='Trusted: stub packages in (1). Outside: job XML text, exec.py run on a node, more than 3 variants, SCM specifications inside the job specification (projects use checkoutScript only).'),
    'C08': dict(
        engine='X',
        technique='CrossHair+z3 enumeration of hostile member lists through the real TarHelper/_tarExtractFilter and the stdlib tarfile extraction code (private module copy) on a stub file system, counterexamples replayed in a real '
                  'temporary directory; CrossHair+z3 enumeration of package trees and of damage positions through real upload / download invocations (real TarHelper pack + extract, real gzip, real hash gate) with a real file archive',
        text='(1) Confinement: for every archive of 2 (quick) / 3 (thorough) members drawn from 16 hostile/benign names x 6 member types x symlink / hard link targets, with right or wrong pax version: after extraction or rejection '
             'no path outside the workspace content directory and the audit file was created, removed or modified (including through hard links), a wrong-format artifact is not extracted, and the audit file next to the '
             'workspace stems from this artifact or does not exist. (2) Lossless: for all 64 combinations of tree features (empty and nested directories, unicode / blank / shell-special / 120-character names, relative, absolute, '
             'dangling and upward symbolic links, hard-linked files, permission bits of files and directories, empty and binary files) a package uploaded by one workspace and downloaded by another yields the identical tree '
             '(types, permission bits, link texts, contents) and an unchanged audit trail, without running a build step. (3) Damage: for each artifact a downloader fetches, truncation to every 31st length (thorough: every length) '
             'and inversion of every 31st byte (thorough: every byte), or replacement by garbage: the invocation fails or the results equal a local build, and a following local build in the same workspace is correct.',
        design_ref='DESIGN.md section 4, C08',
        note='Trusted: SymFS path resolution model in (1) (every counterexample is additionally replayed with the real file system); the script model in (2), (3). Outside: device nodes / fifos in trees, sparse files, owner and time stamps, '
             'a complete artifact of another Build-Id stored under this name (accepted by Bob, see DESIGN.md observations), transports other than the file backend.'),
    'C18': dict(
        engine='X',
        technique='CrossHair+z3 enumeration of every package DAG in the bound (edge kinds symbolic) through the real path query evaluator (real grammar, real sqlite graph) against an independent forward reference semantics',
        text='For every valid DAG over root + 3 packages (quick; + 4 thorough) with each edge absent/direct/indirect and ~500 queries generated from the documented grammar (all 7 axes, exact/glob/wildcard tests, nested, absolute, '
             'negated, boolean and string predicates, up to 3 steps): the set of selected packages equals the step-by-step forward semantics; every result is reported (once, or with all alternates) with a real root path; '
             'nullset/nullglob/nullfail treat empty results as documented. The "path passes through the intermediate steps" part is violated by design (recorded known finding) and otherwise checked.',
        design_ref='DESIGN.md section 4, C18',
        note='Trusted: specs/xpath_ref.py, stub packages. Outside: aliases, string functions other than comparisons, graphs with more than 4 packages, queries outside the generated list, the pyparsing text->AST step beyond these queries.'),
    'C16': dict(
        engine='X',
        technique='CrossHair+z3 enumeration of recipe histories / workspace states through the real DevelopDirOracle (sqlite), _BobState.getByNameDirectory and bob clean delete-set code',
        text='Develop and release mode: for every history of three generations in which an arbitrary subset of three variants of a recipe (plus a second recipe with identical Variant-Ids and a prefix-related name) '
             'exists, in any traversal order: two steps share a directory only if they are the same (recipe, step kind, Variant-Id) (release: same Variant-Id), a variant that still exists keeps its directory, '
             'directories lie below the formatter base directory. bob clean (develop): for every combination of existing directories, matching/stale stored digests, dirty sources and flags -s/-f/--dry-run it never '
             'deletes an up-to-date build/package result or a source workspace of a current package (also when two recipes yield identical packages), and --dry-run deletes nothing. '
             'World histories: real build (develop/release), one of 13 edits, real build (develop/release, optionally --resume), real bob clean in 5 flavours: results equal a clean build and a rebuild afterwards executes nothing '
             '(in the other mode too if nothing was edited).',
        design_ref='DESIGN.md section 4, C16',
        note='Trusted: stub packages/steps, dictionary-backed BobState in the clean check. Outside: attic mode, external name persisters. "A directory handed to a different variant is emptied first" is decided by the residue check of the C01 / C16 world histories.'),
    'C19': dict(
        engine='X',
        technique='CrossHair+z3 enumeration of archive contents / histories through the real bob archive clean/find code paths (real grammar, real sqlite index) against a reference retention semantics',
        text='For 3 artifacts (all presence/package/sort-field/reference-edge combinations in the bound), 14 expression lists of the documented grammar (comparisons, boolean operators, LIMIT, ORDER BY ASC/DESC, '
             'overlapping lists) and index states fresh / warm / stale / after an earlier clean plus uploads: find lists exactly the directly selected artifacts (ties at a LIMIT cut: any maximal choice), clean keeps '
             'exactly the selected artifacts and what they transitively reference and deletes the rest, --dry-run deletes nothing, and the outcome is the reference outcome on the CURRENT archive content for every index state.',
        design_ref='DESIGN.md section 4, C19',
        note='Trusted: reference semantics written from the man page, stub archiver. Outside: more than 3 artifacts, expressions outside the enumerated list, replaced artifacts (same build-id, new content), real archive back-ends.'),
    'C02': dict(
        engine='Z+X',
        technique='z3 collision queries over the Variant-Id pre-image recorded from the real CoreStep.getDigest / mergeScripts on symbolic strings; CrossHair enumeration of variable-list memberships and of pairs of SCM specifications through the real parser / Recipe.prepare',
        text='(1) For every pair of step shapes in the bound (<= 2 tools x <= 2 libs, <= 2 variables, <= 2 arguments; symbolic contents/lengths) two steps with different script / tools (variant, path, libs) / '
             'strong variables / valid argument ids never feed the same bytes into SHA-1 (unsat). (2) For class+recipe with every placement of Setup/Script/Finalize fragments: different executed fragment '
             'sequence => different digest script, except the recorded known finding (Finalize order). (3) For all 2^14 memberships of a variable in the six *Vars/*VarsWeak lists of recipe and class: '
             'a step sees the variable iff declared for it or an earlier step, its Variant-Id changes with the value iff it is strongly declared. '
             '(4) SCM specifications through the real parser: git (url, branch/tag/commit/ref, dir, submodules, recursive), url (url, SHA1/SHA256 digest, dir, file name, extract, stripComponents, fileMode) and import (path, dir): '
             'two specifications that differ in one (thorough: up to two) attribute have different checkout, build and package Variant-Ids exactly when their documented relevant tuples differ; sslVerify, shallow, singleBranch, retries '
             'do not change the id; a second SCM in another directory does. (5) Tools: all 2^12 memberships of a tool in {checkout,build,package}Tools[Weak] of recipe and class: visibility, weak/strong split, Variant-Id changes with the tool variant iff the step sees the tool. '
             '(6) Included files: for 1..2 (thorough 3) matched files per side with symbolic contents the include digest recorded from the real IncludeResolver separates what the script receives for $<<p>> and $<\'p\'>; for $<@p@> it does not (known finding: files are hashed concatenated).',
        design_ref='DESIGN.md section 4, C02',
        note='Trusted: SHA-1 injectivity, ASCII strings with lengths < 256, specs of the documented variable rules. Outside: SCM attribute values with blanks, svn/cvs SCMs, YAML loading, include files, tool environment, provided variables of dependencies.'),
    'C03': dict(
        engine='Z+X',
        technique='z3 non-interference and equivalence queries over the id pre-images recorded from the real CoreStep.getDigest and StepIR.getDigestCoro (vs. each other and vs. a frozen byte-format specification); '
                  'CrossHair+z3 enumeration of generated projects x id-irrelevant perturbations through the real parser',
        text='(1) Within the shape bound: the Variant-Id pre-image does not change with dict insertion order of tools/variables, weak or undeclared variables, the sandbox of an un-fingerprinted step, or the host part of a tool '
             'provider id; CoreStep.getDigest, StepIR.getDigestCoro and the frozen format specification produce identical bytes for all contents (so stored, Jenkins and live ids agree and existing ids stay valid). '
             '(2) Parser level: for the generated projects of the C04 harness (feature bits symbolic) the Variant-Ids of all three steps of every package path are unchanged under another absolute project path (long, blanks, '
             'non-ASCII), reversed creation order of recipe files and of files included through a glob pattern, shifted time stamps, a warm second parse, sandbox switched on, and PYTHONHASHSEED 0 / 1 / 4711 in fresh interpreters. '
             '"Number of times a package is reached / parse order" is decided by the C04 check. '
             '(3) Weakly used tools: for all 2^12 memberships of a tool in {checkout,build,package}Tools[Weak] of a recipe and its class (thorough: the tool also depending on a second tool through dependTools / dependToolsWeak), through the real parser: '
             'a step sees the tool iff it is listed for it or an earlier step, it is weak iff no strong listing applies, the Variant-Id of every step that sees it changes with the variant of the providing package, '
             'and the Build-Id (real getDigestCoro with relaxTools) of the build and package step changes iff the tool (or a tool it depends on strongly) is used strongly.',
        design_ref='DESIGN.md section 4, C03',
        note='Outside: golden ids of test/black-box/stable-variant-ids (the frozen format specification stands in for them), Build-Ids at parser level (covered through the C07 world check: other location => download without build), '
             'audit-file / meta-environment / network-access / job-server settings at parser level.'),
    'C07': dict(
        engine='Z+X',
        technique='z3 collision / non-interference queries over the Build-Id pre-image recorded from the real StepIR.getDigestCoro(fingerprint, platform, relaxTools=True); CrossHair+z3 enumeration of upload / download '
                  'histories through real in-process bob dev invocations with a real file archive (real LocalArchive, TarHelper, _downloadPackage) and the deterministic script model',
        text='(1) Within the shape bound: different source/argument ids, scripts, strong variables, strong tools (id, path, libs), fingerprint or platform never give the same Build-Id pre-image; the variant of a weakly used '
             'tool does not enter it. (2) A workspace populates a file archive; after any of 11 edits a second invocation runs in a fresh workspace at another location or in the same one with download mode no/yes/deps '
             '(upload on/off), then a third one (edit reverted or not, any download mode), optionally aborted by a failing step (quick: package steps) and repeated with any download mode: after every completed invocation '
             'each package that was produced, downloaded or declared up to date equals the purely local clean build of that project state, and with identical recipes at another location and --download=yes no build or package step is executed. '
             '(3) Forced / selective modes: the second invocation with --download=forced | forced-deps | forced-fallback | packages=lib | packages=^app$ after any edit, the third with any of the 8 modes (quick: yes or the same): a forced invocation may fail, '
             'whatever completed equals the local build, identical recipes elsewhere + forced / forced-fallback succeed without a build step. '
             '(4) The value LocalBuilder._getFingerprint mixes into the Build-Id changes with the fingerprint output iff the step is fingerprinted and with the workspace location iff it is the package step of a non-relocatable package (all 8 flag combinations).',
        design_ref='DESIGN.md section 4, C07',
        note='Trusted: SHA-1 injectivity, the script model. Outside: live-build-id prediction and the restart after a wrong prediction (seeded changes C07-m2, C07-m6 are not detected), --download-layer, '
             'other transports, fingerprint script execution, emulated host fingerprints.'),
    'C11': dict(
        engine='X+Z',
        technique='bounded symbolic histories / entry pairs (CrossHair+z3 choose modifications and entry attributes) through the real DirHasher and FileIndex on a stub file system; '
                  'z3 collision queries (sequence theory, and a bounded array lowering of the recorded term for names up to 255 bytes) over the SHA-1 pre-image recorded by executing the real DirHasher on symbolic names / modes / contents',
        text='Cache transparency: for every history of <= 3 modifications (13 kinds x 3 targets, each changing inode, size, mtime or ctime) of a tree, the hash computed with the persistent index equals the hash without it after '
             'every step (incl. warm re-run). Exactness: for a base tree plus one symbolic entry per side (4 names x 6 kinds x mode x content) hashes are equal iff name, type, permission bits and content/link text agree; '
             'timestamps, inode numbers, listing order and what a symlink resolves to do not matter; SCM directories are ignored. '
             'Blob decodability (z3): for all directories with <= 2 (thorough 3) entries per side of any of 6 types, one nesting level, ANY names of 1..4 bytes without NUL and "/", any of the 12 permission bits, contents / link targets / device numbers: '
             'equal top-level pre-image (SHA-1 injective) implies equal entry lists; step lemma for names of 1..255 bytes and all 7 types: an entry followed by nothing or by another entry (as the real code encodes it) and arbitrary bytes decodes uniquely '
             '(entry and the position where it ends), which by induction over the entry list (paper argument) extends decodability to any number of entries.',
        design_ref='DESIGN.md section 4, C11',
        note='Trusted: SymFS stat model, SHA-1. The z3 terms are recorded from the real code per shape and validated against real directories (mkfifo/mknod/symlink/chmod) with the real hashlib. Outside: hashFile chunking (one read per file), the induction step itself, trees larger than the bounds.'),
    'C13': dict(
        engine='X',
        technique='CrossHair+z3 symbolic execution of the quoting function on symbolic strings against a shell word-lexer model; CrossHair enumeration of variable declarations through the real Recipe.prepare pipeline; '
                  'CrossHair enumeration of hostile values / environment settings through real in-process bob dev with the real bash executing build, package and fingerprint scripts',
        text='(1) For every string up to length 4 (thorough 7) without NUL the word bob.languages.quote() writes into the bash prolog is read back by the sh quoting rules as exactly that string, as one literal word. '
             '(2) For all 2^14 combinations of a variable being listed in {checkout,build,package}Vars[Weak] of a recipe and an inherited class, each step sees exactly the variables declared for it or an earlier step. '
             '(3) Real bash: for 17 hostile values and all 400 pairs of 20 special fragments (blanks, $, $( ), backticks, both quotes, backslash and backslash escapes, newline, CR, tab, glob, brace, non-ASCII, empty, -n), '
             'a consumed tool that must come first on PATH / LD_LIBRARY_PATH even if the recipe declares these names, with and without -E and a white-listed host variable (first batch), '
             'the build, package and fingerprint scripts see the declared variables with exactly that value, no variable of a later step, no undeclared recipe variable, the fingerprint script only its fingerprintVars, '
             'and host variables only if white-listed (or -E).',
        design_ref='DESIGN.md section 4, C13',
        note='Trusted: the word-lexer model (the real bash run (3) cross-checks it on the hostile values). Outside: sandbox mounts and namespace-sandbox.c, PowerShell, positional arguments / PATH / LD_LIBRARY_PATH of tools, '
             'checkout scripts, values longer than the bound in (1).'),
    'C15': dict(
        engine='X',
        technique='symbolic execution (CrossHair+z3) of LocalShare.gc/install/use from an arbitrary valid store with symbolic sizes/quota/flags, plus bounded symbolic interleavings of two store operations with an flock model',
        text='(a) From every valid store with <= 2 (quick) / 3 (thorough) packages (symbolic sizes and quota, all presence/used/age shapes, incl. store missing and store still empty) one gc / install / use '
             'leaves a valid store (repo.json = sum of installed packages, visible packages complete with matching hash), never removes a used package unless forced, removes unused packages oldest '
             'usage first and not more than needed in automatic cleaning, does nothing with --dry-run, never raises except the documented BuildError causes. (b) install||install, install||gc, use||gc, '
             'install||use, first-install||gc: every interleaving of their shared operations keeps these invariants, installs at most once, hands no collected package to a user, and does not deadlock.',
        design_ref='DESIGN.md section 4, C15',
        note='Trusted: SymFS + flock model, object codec instead of json, SymFS-level shutil/tempfile, token hash instead of hashDirectoryWithSize. Outside: builder-side symlink bookkeeping '
             '(_useSharedPackage/_installSharedPackage), Windows branch, > 2 concurrent processes. The ordering of `bob clean --shared --used/--all-unused` is not part of the statement (see DESIGN.md observation).'),
    'C09': dict(
        engine='X',
        technique='bounded symbolic interleaving + fault plan (CrossHair+z3 choose schedule, crash index, I/O-error index) over the real LocalArchive upload/mirror code run as replayable processes on a stub POSIX file system',
        text='For two uploaders of one Build-Id with different payloads, a cache-mirroring downloader (strict and nofail cache) and metadata uploads: in EVERY interleaving of their '
             'shared file-system operations, with a kill at every operation or an injected EIO/ENOSPC at every operation of one party, a reader sees under the artifact name nothing '
             'or one complete artifact whose inode and content never change afterwards; a failed upload publishes nothing; metadata files are never partial under their final name.',
        design_ref='DESIGN.md section 4, C09',
        note='Trusted: lib/symfs.py + lib/procs.py (atomic link/rename/unlink, EEXIST on link), operations on a process-private temp file are not scheduling points (they commute). '
             'TarHelper._pack is replaced by a 3-chunk writer. Outside: HTTP/Azure/custom back-ends, Windows rename branch, more than 2 concurrent writers.'),
    'C06': dict(
        engine='X',
        technique='bounded symbolic schedule exploration (CrossHair+z3 choose every scheduling decision) of the real JobServerSemaphore coroutines on a stub event loop and pipe',
        text='(1) Token semaphore: for k<=4 tasks x <=2 rounds (plain acquire/job/release and the yield-job pattern), n<=2 tokens, internal and external (recursive) job server mode and one '
             'foreign take/give of a token, EVERY schedule prefix of S steps followed by a fair completion satisfies: running jobs <= tokens (+1 implicit slot), '
             'no exception, no lost wake-up (run completes), all tokens back in the pipe and none duplicated. (2) Orchestration: real in-process `bob dev -jN [-k]` builds of a project in which one package is '
             'reached on two paths plus an independent second root, with a failure injected into every step, N in 1..3: every step runs at most once, only after its dependencies, nothing depending on the '
             'failed step runs, without keep-going nothing starts after the failure (-j1), with keep-going the independent root is still built.',
        design_ref='DESIGN.md section 4, C06',
        note='Trusted: stub loop/pipe semantics (any enabled action may run next: superset of asyncio orders), real asyncio.Semaphore. Outside: task cancellation (aborted builds), '
             'Windows BoundedSemaphore branch, schedules longer than the bound; orchestration: asyncio schedules are those the real event loop produces for instantaneous scripts (no symbolic step durations).'),
    'C10': dict(
        engine='X',
        technique='symbolic fault plan (crash index, torn-write image) over the real _BobState persistence code on a stub POSIX file system; CrossHair+z3 decide crash points and operation sequences; bounded',
        text='For every sequence of <= 2 (quick) / 3 (thorough) state-mutating API calls out of 16 kinds (incl. invocation boundaries and asynchronous sections), '
             'a crash before every mutating file-system operation and every modelled power-loss image of not-fsynced files, a fresh _BobState starts without error '
             'and holds exactly one saved snapshot that is not older than the last completed invocation; all state-file mutations happen while the lock is held; '
             'a second instance is refused while the lock exists.',
        design_ref='DESIGN.md section 4, C10',
        note='Trusted: lib/symfs.py POSIX model (atomic rename, ordered metadata, unsynced data may be lost), torn images limited to full/none/6 prefix cuts/6 single-byte garbles. '
             'Outside: sqlite build-id cache, Windows replacePath retry loop, real signals.'),
    'C17': dict(
        engine='X',
        technique='symbolic execution (CrossHair+z3) of Env.substitute/StringParser/IfExpression against an independent reference interpreter; bounded string length',
        text='For every Unicode string up to the stated length (and every filling of the syntactic templates / IfExpression skeletons '
             'with symbolic strings) and every set/empty/unset environment, the real substitution code returns exactly the value of '
             'the documented language or a ParseError, never an internal exception. "Confirmed" = all paths within the bound explored; '
             'conditions that hit their time budget are reported inconclusive, never as verified.',
        design_ref='DESIGN.md section 4, C17',
        note='Trusted: specs/subst_ref.py (reference written from doc/manual/configuration.rst), CrossHair/z3 string theory '
             '(counterexamples are replayed in plain CPython). Outside: regex functions match/resubst/matchScm, strings longer than the bound, '
             'pyparsing text->AST step of IfExpression (22 hand-written skeletons + 14 (quick) of the expressions of nesting depth <= 2 over !, ==, && (incl. the ill-typed ones) / !, ==, !=, <, &&, || (thorough) generated from the documented grammar, well typed or not, '
             'are parsed by the real grammar; only their literals are symbolic).'),
    'C04': dict(
        engine='X',
        technique='CrossHair+z3 symbolic execution of Env touch tracking / StringParser on symbolic strings (non-interference); CrossHair+z3 enumeration of project shapes and invocation histories through the real RecipeSet.parse / generatePackages / Recipe.prepare memoisation, the real persisted pickle / sqlite caches and the real path query, '
                  'compared with the same real code with memo lookup and by-id merging disabled in a fresh directory',
        text='For a generated project of 11 recipes with 11 symbolic feature bits (which of leaf/mid/top consume a variable that two parents set differently, direct and transitive reachability, dependency order, '
             'conditional dependency on the sandbox state, provided variables, earlier visits with the variable unset) and for histories of 2 (quick) / 3 (thorough) invocations in one project directory with symbolic '
             'sandbox on/off, -D override and a recipe edit: the package graph (every path, package-step variant id, environment, digest script, tools, sandbox flag, direct and indirect dependency names) and the result of '
             'the query //* are identical to those computed by the same code with PackageMatcher.matches forced to False, no merging by result id, and no on-disk caches. '
             'Touch kernel (symbolic strings through the real Env/StringParser): for every string up to length 2-3 (thorough 5) and 5 (thorough 18) syntactic skeletons with symbolic holes, changing one '
             'variable / tool that the run did not report in touchedKeys() changes neither the outcome nor the touched sets.',
        design_ref='DESIGN.md section 4, C04',
        note='Trusted: the uncached reference is the same real code with the two reuse points disabled. Outside: class / include / default.yaml / layer edits, tool and plugin-state touches, projects beyond the generated family, '
             'cache key collisions of the on-disk caches (sha1 / stat granularity).'),
    'C12': dict(
        engine='X',
        technique='CrossHair+z3 enumeration of histories (recipe SCM edits, upstream commits, user edits, invocations) through real in-process bob dev / bob dev --clean-checkout / bob clean -s [-v] / bob clean --attic '
                  'with the real GitScm code driving the real git binary on local upstream repositories; checkout of the final specification by the same code in an empty project as reference',
        text='git SCMs only. For 8 initial specifications (branch / tag / commit / commit on branch, with or without a second SCM) and the history families listed in the evidence (quick ~630 histories of 2-3 steps out of 22 '
             'step kinds followed by a final bob dev; thorough ~7700 incl. all 2-step histories): (no loss) every dirty edit of a tracked file, untracked file and local commit (reachable from a ref or HEAD, or its content in a '
             'work tree) that existed below the project before a Bob invocation still exists afterwards, in place or in the attic, whatever Bob answered; (convergence) while the user touched nothing, bob dev succeeds and the '
             'source workspace without .git equals a fresh checkout of the final specification.',
        design_ref='DESIGN.md section 4, C12',
        note='Trusted: the git binary (environment, executed natively), the harness oracle. Outside: url and import SCMs, svn/cvs, nested SCM directories, upstream rewinds / moved tags, submodules, --force, release mode, '
             'layers (bob layers update), histories longer than the bound. Process creation is serialised in this sandbox (~150/s), which bounds the number of histories per run.'),
}
NOT_APPLICABLE = {}

#!/bin/bash
# Idempotent, offline bootstrap of the analysis environment:
#   /verif/.venv = overlay on /venv (the repository's interpreter + deps)
#   plus crosshair-tool / z3-solver from the local wheelhouse.
set -e
cd "$(dirname "$0")"
V=.venv
if [ ! -x $V/bin/python ] || ! $V/bin/python -c "import crosshair, z3, pyparsing, yaml" 2>/dev/null; then
    rm -rf $V
    /venv/bin/python -m venv $V
    echo "import site; site.addsitedir('/venv/lib/python3.12/site-packages')" \
        > $V/lib/python3.12/site-packages/overlay.pth
    PIP_NO_INDEX=1 $V/bin/pip install -q --no-index --find-links /opt/veriftools/wheels \
        crosshair-tool z3-solver >/dev/null
    $V/bin/python -c "import crosshair, z3, pyparsing, yaml"
fi
mkdir -p evidence replay

"""C11 -- Directory hashes are content exact and cache transparent (engine X part).

Real code executed: bob.utils.DirHasher.hashDirectory/__hashDir/__hashEntry/
__hashLink, hashFile, DirHasher.FileIndex.open/close/__readEntry/__writeEntry/
__match/check with the real struct/hashlib on a SymFS tree.
 * check_cache: a symbolic HISTORY of tree modifications (every modification changes
   the stat data: inode, size, mtime or at least ctime); after each step the hash
   computed with the persistent index equals the hash computed without it.
 * check_exact: two trees that differ in one symbolic entry have equal hashes iff the
   entries agree in name, type, permission bits, content / link target (SCM metadata
   directories ignored); timestamps, inode numbers, listing order and what a symbolic
   link happens to point at do not matter.
"""
import sys
from lib import V
sys.path.insert(0, V.REPO + '/pym')

import bob.utils as BU
from lib.symfs import SymFS, FakeOS

ENCODED = ['bob.utils.DirHasher.hashDirectory', 'bob.utils.DirHasher.__hashDir', 'bob.utils.DirHasher.__hashEntry',
           'bob.utils.DirHasher.__hashLink', 'bob.utils.hashFile', 'bob.utils.DirHasher.FileIndex.open',
           'bob.utils.DirHasher.FileIndex.close', 'bob.utils.DirHasher.FileIndex.__readEntry',
           'bob.utils.DirHasher.FileIndex.__writeEntry', 'bob.utils.DirHasher.FileIndex.__match',
           'bob.utils.DirHasher.FileIndex.check', 'bob.utils.DirHasher.NullIndex.check']
STUBS = ['file system = lib.symfs.SymFS (scandir order reversed w.r.t. sorted order), bob.utils.os/open/NamedTemporaryFile/replacePath re-bound',
         'logging silenced']
ASSUMPTIONS = ['every modification of a file changes at least one of inode, size, mtime, ctime (statement); a rewrite that '
               'restores mtime still changes ctime', 'SHA-1 collision free']
BOUNDS = ('check_cache: initial tree of 3 entries (file, file in sub directory, symlink) + history of <= 3 '
          'modifications out of 13 kinds x 3 targets; check_exact: base tree + one symbolic entry per side out of '
          '4 names x 6 kinds x 2 modes x 2 contents')

NAMES = ['a', 'd/b', 'c']


class _Log:
    def info(self, *a, **k): pass
    def warning(self, *a, **k): pass
    def debug(self, *a, **k): pass


class _Logging:
    @staticmethod
    def getLogger(*a):
        return _Log()


def install(fs):
    BU.os = FakeOS(fs)
    BU.open = lambda p, mode='r', buffering=-1, **kw: fs.open(p, mode)
    BU.replacePath = fs.replace
    BU.logging = _Logging

    def ntf(mode='w+b', dir=None, delete=True, **kw):
        p = fs.mktemp_name(dir or '.', 'tmpidx')
        f = fs.open(p, 'wb')
        f.name = p
        return f
    BU.NamedTemporaryFile = ntf


def hashes(fs):
    cached = BU.DirHasher('/cache.bin').hashDirectory('/t')
    plain = BU.DirHasher(None).hashDirectory('/t')
    return cached, plain


NOPS = 13


def modify(fs, op, tgt):
    """one modification of the tree; every kind changes stat data of what it touches"""
    p = '/t/' + NAMES[tgt]
    q = fs.norm(p)
    node = fs.names.get(q)
    isdir = q in fs.dirs
    if op == 0:      # (re)create as file with new content
        remove(fs, q)
        fs.put(p, b'new-content')
    elif op == 1:    # append
        if node is not None and node.kind == 'f':
            node.data += b'+'
            fs._touch(node)
    elif op == 2:    # same-size rewrite
        if node is not None and node.kind == 'f' and node.data:
            node.data = bytes([node.data[0] ^ 1]) + node.data[1:]
            fs._touch(node)
    elif op == 3:    # same-size rewrite with mtime restored (only ctime moves)
        if node is not None and node.kind == 'f' and node.data:
            old = node.mtime
            node.data = bytes([node.data[0] ^ 2]) + node.data[1:]
            fs._touch(node)
            node.mtime = old
    elif op == 4:    # chmod
        if node is not None and node.kind == 'f':
            node.mode ^= 0o111
            fs.clock += 1
            node.ctime = fs.clock
    elif op == 5:    # delete
        remove(fs, q)
    elif op == 6:    # replace by a directory with a file in it
        remove(fs, q)
        fs.put(p + '/inner', b'inner')
    elif op == 7:    # replace by symlink
        remove(fs, q)
        n = fs._new('l', 0o777)
        n.target = 'a'
        fs._bind(q, n)
    elif op == 8:    # rename to a name sorting last
        if node is not None:
            fs.names['/t/zz'] = fs.names.pop(q)
            fs.clock += 1
            node.ctime = fs.clock
    elif op == 9:    # rename to a name sorting first
        if node is not None:
            fs.names['/t/0'] = fs.names.pop(q)
            fs.clock += 1
            node.ctime = fs.clock
    elif op == 10:   # replace file by another file with identical content (new inode)
        if node is not None and node.kind == 'f':
            d, m = node.data, node.mode
            remove(fs, q)
            fs.put(p, d, m)
    elif op == 11:   # retarget symlink
        if node is not None and node.kind == 'l':
            remove(fs, q)
            n = fs._new('l', 0o777)
            n.target = 'elsewhere'
            fs._bind(q, n)
    elif op == 12:   # add a sibling that sorts between existing names
        fs.put('/t/b0', b'sibling')


def remove(fs, q):
    if q in fs.names:
        fs._unbind(q)
    if q in fs.dirs:
        for k in [k for k in fs.names if k.startswith(q + '/')]:
            fs._unbind(k)
        for k in [k for k in fs.dirs if k == q or k.startswith(q + '/')]:
            del fs.dirs[k]


def history(ops):
    fs = SymFS()
    install(fs)
    fs.mkdirs('/t/d')
    fs.put('/t/a', b'content-a')
    fs.put('/t/d/b', b'content-b', 0o755)
    n = fs._new('l', 0o777)
    n.target = 'a'
    fs._bind('/t/c', n)
    c, p = hashes(fs)
    if c != p:
        return False, 'initial'
    # a second run without any change must agree as well (warm index)
    c, p = hashes(fs)
    if c != p:
        return False, 'warm'
    for (op, tgt) in ops:
        modify(fs, op, tgt)
        c, p = hashes(fs)
        if c != p:
            return False, 'after-op'
    return True, 'ok'


def check_cache(o0: int, t0: int, o1: int, t1: int, o2: int, t2: int, o3: int) -> bool:
    """
    pre: 0 <= o0 < NOPS and 0 <= o1 < NOPS and 0 <= o2 < NOPS and 0 <= o3 < NOPS
    pre: 0 <= t0 < 3 and 0 <= t1 < 3 and 0 <= t2 < 3
    pre: o0 == V.SHARD[0]
    pre: V.SHARD[1] >= 4 or o3 == 0
    pre: V.SHARD[2] < 0 or o1 == V.SHARD[2]
    post: _
    """
    V.enter()
    n = V.SHARD[1]
    ops = [(V.concretize(o0, NOPS), V.concretize(t0, 3))]
    if n >= 2:
        ops.append((V.concretize(o1, NOPS), V.concretize(t1, 3)))
    if n >= 3:
        ops.append((V.concretize(o2, NOPS), V.concretize(t2, 3)))
    if n >= 4:
        ops.append((V.concretize(o3, NOPS), 0))        # (a fourth modification, of the first target only)
    with V.fast():
        ok, fact = history(ops)
    return V.verdict(ok, fact)


# ------------------------------------------------------------- exactness ----
ENAMES = ['e', '.git', 'BaseDirList.txt', 'a0']
NKINDS = 6   # 0 absent, 1 file, 2 dir (with one file), 3 symlink->file, 4 symlink->dir, 5 dangling symlink


def check_exact(n1: int, k1: int, m1: bool, c1: bool, n2: int, k2: int, m2: bool, c2: bool) -> bool:
    """
    pre: 0 <= n1 < 4 and 0 <= n2 < 4
    pre: 0 <= k1 < NKINDS and 0 <= k2 < NKINDS
    pre: k1 == V.SHARD[0]
    post: _
    """
    V.enter()
    n1 = V.concretize(n1, 4); n2 = V.concretize(n2, 4)
    k1 = V.concretize(k1, NKINDS); k2 = V.concretize(k2, NKINDS)
    m1 = bool(m1); m2 = bool(m2); c1 = bool(c1); c2 = bool(c2)
    with V.fast():
        h1 = tree_with_targets(n1, k1, m1, c1, 0)
        h2 = tree_with_targets(n2, k2, m2, c2, 7)
        same = canon(n1, k1, m1, c1) == canon(n2, k2, m2, c2)
    return V.verdict((h1 == h2) == same, same)


def tree_with_targets(name, kind, mode, content, skew):
    """the tree under /t is hashed; symlinks point to ../out/... so that what a link resolves to
    (file / directory / nothing) is not part of the hashed tree"""
    fs = SymFS()
    install(fs)
    fs.mkdirs('/t')
    fs.mkdirs('/out')
    fs.put('/t/base', b'base')
    # SCM meta data below the top level differs between the two trees: it must not matter at any depth
    fs.mkdirs('/t/nest/.git')
    fs.put('/t/nest/.git/config', b'A' if skew == 0 else b'B')
    fs.mkdirs('/t/nest/deep/.svn')
    fs.put('/t/nest/deep/.svn/entries', b'A' if skew == 0 else b'BB')
    fs.put('/t/nest/deep/keep', b'keep')
    p = '/t/' + ENAMES[name]
    fs.clock += skew
    fs.next_ino += skew
    m = 0o755 if mode else 0o644
    c = b'X' if content else b'Y'
    if kind == 1:
        fs.put(p, c, m)
    elif kind == 2:
        fs.mkdirs(p)
        fs.dirs[fs.norm(p)] = 0o755 if mode else 0o700
        fs.put(p + '/f', c)
    elif kind >= 3:
        n = fs._new('l', 0o777)
        n.target = '../out/' + ('X' if content else 'Y')
        fs._bind(fs.norm(p), n)
        tgt = '/out/' + ('X' if content else 'Y')
        if kind == 3:
            fs.put(tgt, b'file')
        elif kind == 4:
            fs.mkdirs(tgt)
            fs.put(tgt + '/inner', b'zzz')
    return BU.DirHasher(None).hashDirectory('/t')


def canon(name, kind, mode, content):
    """what the statement says the hash is a function of"""
    if kind == 0:
        return None
    nm = ENAMES[name]
    if kind == 2 and nm == '.git':
        return None
    if kind != 2 and nm == 'BaseDirList.txt':
        return None
    if kind == 1:
        return (nm, 'file', mode, content)
    if kind == 2:
        return (nm, 'dir', mode, content)
    return (nm, 'link', content)


def PLAN(tier):
    q = tier == 'quick'
    P = []
    for o in range(NOPS):
        if q:
            P.append(dict(fn='check_cache', shard=[o, 3, -1], timeout=300))
        else:
            for o1 in range(NOPS):
                P.append(dict(fn='check_cache', shard=[o, 4, o1], timeout=1500))
    for k in range(NKINDS):
        P.append(dict(fn='check_exact', shard=[k], timeout=200 if q else 900))
    return P

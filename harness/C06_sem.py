"""C06 (token semaphore part) -- JobServerSemaphore never over-admits, never loses
or duplicates a job-server token, never loses a wake-up.

Real code executed: bob.builder.JobServerSemaphore.acquire/release/
jobavailableCallback (+ the real asyncio.Semaphore), driven as coroutines on a
stub event loop with a stub pipe.  Symbolic: the schedule (which enabled action
happens next: resume a task whose job finished / whose wake-up arrived, deliver
the pipe-readable callback, a foreign make process taking or returning a token),
the initial token count, recursive (external job server) mode.
"""
import sys
from typing import List
from lib import V
sys.path.insert(0, V.REPO + '/pym')

import asyncio
import warnings
import bob.builder as BB

warnings.filterwarnings('ignore', message='coroutine .* was never awaited')

ENCODED = ['bob.builder.JobServerSemaphore.acquire', 'bob.builder.JobServerSemaphore.release',
           'bob.builder.JobServerSemaphore.jobavailableCallback', 'bob.builder.JobServerSemaphore.__init__']
STUBS = ['event loop: stub with create_future/add_reader/remove_reader/call_soon; coroutines are resumed by the '
         'symbolic scheduler (any enabled action may happen next: a superset of the orders asyncio can produce for '
         'arbitrary job durations)', 'pipe: counter of tokens; os.read raises BlockingIOError when empty',
         'bob.builder.os re-bound to a proxy overriding read/write only']
ASSUMPTIONS = ['tasks are not cancelled (the statement excludes aborted builds)',
               'a foreign make process only takes tokens that are in the pipe and returns what it took']
BOUNDS = ('k tasks x r rounds of acquire/job/release (and the yield-job pattern release/wait/acquire inside a held '
          'slot), n initial tokens, every schedule prefix of S steps (then a fixed fair completion of the run); quick: k<=4,r<=2,n<=2,S=9..10; thorough: S=9..11; one foreign take/give; symmetric tasks in the same local state are explored once')


class Pipe:
    def __init__(self, n):
        self.n = n


class PipeOS:
    def __init__(self, pipe):
        self.pipe = pipe

    def read(self, fd, n):
        if self.pipe.n <= 0:
            raise BlockingIOError()
        self.pipe.n -= 1
        return b'+'

    def write(self, fd, data):
        self.pipe.n += len(data)
        return len(data)

    def __getattr__(self, name):
        raise V.HarnessGap('os.%s used by semaphore code' % name)


class Loop:
    def __init__(self):
        self.reader = None

    def create_future(self):
        return asyncio.Future(loop=self)

    def add_reader(self, fd, cb, *args):
        self.reader = (cb, args)

    def remove_reader(self, fd):
        self.reader = None
        return True

    def call_soon(self, cb, *args, context=None):
        raise V.HarnessGap('call_soon: a future had callbacks')

    def get_debug(self):
        return False

    def is_closed(self):
        return False

    def call_exception_handler(self, ctx):
        pass


class Work:
    """a job of unknown duration: the scheduler decides when it is finished"""

    def __await__(self):
        yield self


class World:
    def __init__(self, n, recursive, k, rounds, mode):
        self.pipe = Pipe(n)
        self.n = n
        self.recursive = recursive
        self.loop = Loop()
        BB.os = PipeOS(self.pipe)
        asyncio.events._set_running_loop(self.loop)
        self.sem = BB.JobServerSemaphore((3, 4), recursive)
        self.limit = n + (1 if recursive else 0)
        self.running = 0
        self.maxrun = 0
        self.ext = 0
        self.ext_takes = 0
        self.err = None
        self.pos = [(0, 'new')] * k
        self.coros = [self.worker(i, rounds, mode) for i in range(k)]
        self.wait = [None] * k          # future or Work the task is suspended on
        self.started = [False] * k
        self.done = [False] * k

    async def worker(self, i, rounds, mode):
        for r in range(rounds):
            self.pos[i] = (r, 'acq')
            await self.sem.acquire()
            self.running += 1
            if self.running > self.maxrun:
                self.maxrun = self.running
            self.pos[i] = (r, 'job')
            await Work()
            if mode == 1:
                # __yieldJobWhile: give the slot back while waiting for dependencies
                self.running -= 1
                self.sem.release()
                self.pos[i] = (r, 'dep')
                await Work()
                self.pos[i] = (r, 'reacq')
                await self.sem.acquire()
                self.running += 1
                if self.running > self.maxrun:
                    self.maxrun = self.running
                self.pos[i] = (r, 'job2')
                await Work()
            self.running -= 1
            self.sem.release()
        self.pos[i] = (rounds, 'end')

    def resumable(self, i):
        if self.done[i]:
            return False
        w = self.wait[i]
        if w is None or isinstance(w, Work):
            return True
        return w.done()

    def resume(self, i):
        try:
            y = self.coros[i].send(None)
            self.wait[i] = y
            if not isinstance(y, Work):
                y._asyncio_future_blocking = False
        except StopIteration:
            self.done[i] = True
            self.wait[i] = None

    def actions(self):
        acts = []
        seen = set()
        for i in range(len(self.coros)):
            if self.resumable(i):
                w = self.wait[i]
                key = (self.pos[i], 'woken' if (w is not None and not isinstance(w, Work)) else 'r')
                # symmetric tasks: woken waiters are distinguished (FIFO identity), others are not
                if key[1] == 'r' and key in seen:
                    continue
                seen.add(key)
                acts.append(('task', i))
        if self.loop.reader is not None and self.pipe.n > 0:
            acts.append(('reader', 0))
        if self.pipe.n > 0 and self.ext_takes < 1:
            acts.append(('take', 0))
        if self.ext > 0:
            acts.append(('give', 0))
        return acts

    def do(self, a):
        if a[0] == 'task':
            self.resume(a[1])
        elif a[0] == 'reader':
            cb, args = self.loop.reader
            cb(*args)
        elif a[0] == 'take':
            self.pipe.n -= 1
            self.ext += 1
            self.ext_takes += 1
        elif a[0] == 'give':
            self.pipe.n += 1
            self.ext -= 1

    def quiescent_ok(self):
        """all tasks finished: every token is back, none duplicated"""
        return self.pipe.n + self.ext == self.n

    def stuck(self):
        """no enabled action although tasks are unfinished = lost wake-up / deadlock.
        (a foreign make holding the only token is not a deadlock: 'give' stays enabled)"""
        return not all(self.done)


def drain(w):
    """deterministic, fair completion of a run after the symbolic prefix: the foreign make
    returns its token, pending pipe callbacks are delivered, tasks are resumed round robin"""
    for _ in range(200):
        acts = w.actions()
        if not acts:
            return
        pick = None
        for kind in ('give', 'reader', 'task'):
            for a in acts:
                if a[0] == kind:
                    pick = a
                    break
            if pick:
                break
        if pick is None:
            return            # only 'take' is enabled: everything else is finished
        w.do(pick)
        if w.maxrun > w.limit:
            return
    raise V.HarnessGap('run did not finish within 200 steps')


def explore(n, recursive, k, rounds, mode, sched):
    """symbolic schedule prefix, then deterministic completion; returns (ok, fact)"""
    w = World(n, recursive, k, rounds, mode)
    try:
        for c in sched:
            acts = w.actions()
            if not acts:
                break
            if len(acts) > 6:
                raise V.HarnessGap('more than 6 enabled actions')
            w.do(acts[V.sym_pick(c, len(acts))])
            if w.maxrun > w.limit:
                return False, 'over-admission'
            if w.pipe.n + w.ext > w.n:
                return False, 'token-duplicated'
        drain(w)
        if w.maxrun > w.limit:
            return False, 'over-admission'
        if w.stuck():
            return False, 'lost-wakeup'
        if not w.quiescent_ok():
            return False, 'token-count'
        return True, 'finished'
    except V.HarnessGap:
        raise
    except Exception as e:
        return False, 'raised-' + type(e).__name__
    finally:
        asyncio.events._set_running_loop(None)


def check_sem(c0: int, c1: int, c2: int, c3: int, c4: int, c5: int, c6: int, c7: int, c8: int,
              c9: int, c10: int, c11: int) -> bool:
    """
    post: _
    """
    V.enter()
    k, rounds, mode, S, recursive, n = V.SHARD
    sched = [c0, c1, c2, c3, c4, c5, c6, c7, c8, c9, c10, c11][:S]
    with V.fast():
        ok, fact = explore(n, recursive, k, rounds, mode, sched)
    return V.verdict(ok, fact)


def PLAN(tier):
    P = []
    q = tier == 'quick'
    cfgs = [(3, 1, 0, 10), (3, 2, 0, 9), (2, 2, 1, 9), (3, 1, 1, 9), (4, 1, 0, 9)] if q else \
           [(3, 2, 0, 11), (3, 1, 1, 10), (2, 2, 1, 10), (4, 1, 0, 11), (4, 2, 0, 10), (3, 2, 1, 9)]
    for (k, r, mode, S) in cfgs:
        for rec in (False, True):
            for n in (0, 1, 2):
                if n == 0 and not rec:
                    continue      # an internal job server always holds >= 2 tokens
                P.append(dict(fn='check_sem', shard=[k, r, mode, S, rec, n], timeout=150 if q else 1500))
    return P


# ------------------------------------------------------------- real replay ----
def replay_real(fn, shard, args):
    """replay the schedule on a real asyncio event loop with a real FIFO"""
    return None

"""C02 (SCM part) -- the Variant-Id of a checkout step separates SCM specifications.

Real code executed: bob.input.RecipeSet.parse / generatePackages, bob.scm.git.GitScm /
bob.scm.url.UrlScm / bob.scm.imp.ImportScm constructors and asDigestScript,
CoreCheckoutStep digest, on a generated one-recipe project.
Symbolic: two SCM specifications drawn from the attribute domains below.
Oracle (from the documented digest formats "url rev-spec dir [submodules...]" /
"digest-or-url dir/file extract [s#] [m#] [sep]" / "url dir"): two specifications whose
RELEVANT tuples differ have different checkout Variant-Ids (and therefore different build and
package Variant-Ids); two identical specifications have identical ids; attributes documented as
irrelevant (sslVerify, shallow, singleBranch, retries, references) do not change the id.
"""
import os
import sys
from lib import V
sys.path.insert(0, V.REPO + '/pym')

from harness import C04_caches as G
from bob.input import RecipeSet

NO_SOLVER_TIMEOUT = True
ENCODED = ['bob.scm.git.GitScm.__init__', 'bob.scm.git.GitScm.asDigestScript', 'bob.scm.url.UrlScm.__init__',
           'bob.scm.url.UrlScm.asDigestScript', 'bob.scm.imp.ImportScm.asDigestScript', 'bob.input.CoreCheckoutStep.getDigestScript',
           'bob.input.CoreStep.getDigest', 'bob.input.RecipeSet.parse']
STUBS = ['tty output discarded']
ASSUMPTIONS = ['attribute values contain no blanks (the digest formats separate fields by blanks)']
BOUNDS = ('git: 2 urls x {2 branches, 2 tags, 2 commits, 2 refs, branch+tag (2), branch+commit} x 2 dirs x {no, all, [a], [a,b]} submodules x recursive; '
          'url: 2 urls x {no, 2 sha1, sha256} digests x 2 dirs x 2 file names x 3 extract modes x strip 0/1 x file mode; import: 2 paths x 2 dirs; '
          'plus a second SCM in another directory; every pair of specifications of one kind that differ in one attribute (thorough: up to two)')

C1, C2 = 'a' * 40, 'b' * 40
GIT = [dict(url=u, dir=d, sub=s, rec=r, **rev)
       for u in ('file:///u1.git', 'file:///u2.git')
       for rev in (dict(branch='b1'), dict(branch='b2'), dict(tag='t1'), dict(tag='b1'), dict(commit=C1), dict(commit=C2),
                   dict(rev='refs/x/y'), dict(rev='refs/heads/b1'),
                   # several revision attributes at once (scmDefaults + recipe, commit-on-branch): commit > tag > branch
                   dict(branch='b1', tag='t1'), dict(branch='b1', tag='b1'), dict(branch='b1', commit=C1))
       for d in ('.', 'sub')
       for s in (None, True, ['a'], ['a', 'b'])
       for r in ((False, True) if s else (False,))]
D1, D2, D256 = '1' * 40, '2' * 40, '3' * 64
URL = [dict(url=u, dg=g, dir=d, fn=f, ex=e, strip=s, mode=m)
       for u in ('http://h/a.tgz', 'http://h/b.tgz')
       for g in (None, ('digestSHA1', D1), ('digestSHA1', D2), ('digestSHA256', D256))
       for d in ('.', 'sub')
       for f in (None, 'other.tgz')
       for e in (None, 'no', 'tar')
       for s in (0, 1, 2)
       for m in (None, 0o644)]            # (None = the policy default 0600)
IMP = [dict(url=u, dir=d) for u in ('src1', 'src2') for d in ('.', 'sub')]


def git_yaml(s, extra=''):
    t = '  - scm: git\n    url: "%s"\n' % s['url']
    for k in ('branch', 'tag', 'commit', 'rev'):
        if k in s:
            t += '    %s: "%s"\n' % (k, s[k])
    if s['dir'] != '.':
        t += '    dir: %s\n' % s['dir']
    if s['sub'] is True:
        t += '    submodules: True\n'
    elif s['sub']:
        t += '    submodules: [%s]\n' % ', '.join(s['sub'])
    if s['rec']:
        t += '    recurseSubmodules: True\n'
    return t + extra


def git_rel(s):
    """the documented relevant tuple"""
    if 'commit' in s:
        rev = ('commit', s['commit'])          # a commit names the content: the url is deliberately not part of the id
    elif 'tag' in s:
        rev = (s['url'], 'refs/tags/' + s['tag'])
    elif 'branch' in s:
        rev = (s['url'], 'refs/heads/' + s['branch'])
    else:
        rev = (s['url'], s['rev'])
    return (rev, s['dir'], repr(s['sub']), s['rec'])


def url_yaml(s, extra=''):
    t = '  - scm: url\n    url: "%s"\n' % s['url']
    if s['dg']:
        t += '    %s: "%s"\n' % s['dg']
    if s['dir'] != '.':
        t += '    dir: %s\n' % s['dir']
    if s['fn']:
        t += '    fileName: %s\n' % s['fn']
    if s['ex']:
        t += '    extract: "%s"\n' % s['ex']
    if s['strip']:
        t += '    stripComponents: %d\n' % s['strip']
    if s['mode'] is not None:
        t += '    fileMode: %d\n' % s['mode']
    return t + extra


def url_rel(s):
    ident = s['dg'][1] if s['dg'] else s['url']
    fn = s['fn'] or s['url'].rsplit('/', 1)[1]
    return (ident, s['dir'], fn, s['ex'] or 'auto', s['strip'], s['mode'])


def imp_yaml(s, extra=''):
    return '  - scm: import\n    url: %s\n' % s['url'] + ('    dir: %s\n' % s['dir'] if s['dir'] != '.' else '') + extra


def imp_rel(s):
    return (s['url'], s['dir'])


KINDS = [(GIT, git_yaml, git_rel, ['    sslVerify: False\n', '    shallow: 1\n', '    singleBranch: True\n', '    retries: 3\n']),
         (URL, url_yaml, url_rel, ['    sslVerify: False\n', '    retries: 3\n']),
         (IMP, imp_yaml, imp_rel, [])]


def vids(proj, text):
    os.makedirs(os.path.join(proj, 'recipes'), exist_ok=True)
    for d in ('src1', 'src2'):
        os.makedirs(os.path.join(proj, d), exist_ok=True)
    with open(os.path.join(proj, 'config.yaml'), 'w') as f:
        f.write('bobMinimumVersion: "0.25"\n')
    with open(os.path.join(proj, 'recipes', 'root.yaml'), 'w') as f:
        f.write('root: True\ncheckoutSCM:\n' + text + 'buildScript: "b"\npackageScript: "p"\n')
    os.chdir(proj)
    for f in ('.bob-packages.pickle', '.bob-tree.sqlite3'):
        try:
            os.unlink(f)
        except OSError:
            pass
    rs = RecipeSet()
    rs.parse({})
    packages = rs.generatePackages(lambda s, m: 'unused', False)
    try:
        p = packages.getRootPackage().getDirectDepSteps()[0].getPackage()
        return tuple(s.getVariantId() for s in (p.getCheckoutStep(), p.getBuildStep(), p.getPackageStep()))
    finally:
        packages.close()
        for n in G._nodes:
            try:
                n.close()
            except Exception:
                pass
        G._nodes[:] = []


_memo = {}


def ids_of(kind, i, extra='', second=''):
    key = (kind, i, extra, second)
    if key not in _memo:
        specs, yaml, rel, _ = KINDS[kind]
        _memo[key] = vids(G.fresh('scm'), second + yaml(specs[i], extra))
    return _memo[key]


def scenario(kind, i, j, irr, second):
    G.install()
    import io
    import contextlib
    cwd = os.getcwd()
    buf = io.StringIO()
    specs, yaml, rel, irrelevant = KINDS[kind]
    sec = '  - scm: git\n    url: "file:///second.git"\n    branch: m\n    dir: zz\n' if second else ''
    try:
        with contextlib.redirect_stderr(buf), contextlib.redirect_stdout(buf):
            a = ids_of(kind, i, '', sec)
            b = ids_of(kind, j, '', sec)
            differ = rel(specs[i]) != rel(specs[j])
            if differ and a[0] == b[0]:
                return False, 'different-specifications-share-an-id'
            if differ and (a[1] == b[1] or a[2] == b[2]):
                return False, 'difference-does-not-reach-build-or-package-id'
            if not differ and a != b:
                return False, 'equal-specifications-differ'
            if irrelevant:
                c = ids_of(kind, i, irrelevant[irr % len(irrelevant)], sec)
                if c != a:
                    return False, 'irrelevant-attribute-changes-the-id'
            if second and ids_of(kind, i, '', '') == a:
                return False, 'second-scm-ignored'
        return True, 'ok'
    finally:
        os.chdir(cwd)


def dist(a, b):
    return sum(1 for k in set(a) | set(b) if a.get(k) != b.get(k))


_PAIRS = {}


def pairs(kind, maxd):
    """all pairs of specifications that differ in at most maxd attributes (maxd 0: every pair)"""
    key = (kind, maxd)
    if key not in _PAIRS:
        specs = KINDS[kind][0]
        _PAIRS[key] = [(i, j) for i in range(len(specs)) for j in range(i, len(specs))
                       if not maxd or dist(specs[i], specs[j]) <= maxd]
    return _PAIRS[key]


def check_scm(kind: int, p: int, irr: int, second: bool) -> bool:
    """
    pre: kind == V.SHARD[0]
    pre: V.SHARD[2] <= p < V.SHARD[3]
    pre: 0 <= irr < 4
    pre: V.SHARD[4] or (not second and irr == p % 4)
    post: _
    """
    V.enter()
    k = V.SHARD[0]
    with V.fast():
        P = pairs(k, V.SHARD[1])          # (73 000 attribute comparisons: not under the tracer)
    q = V.concretize(p, V.SHARD[3], V.SHARD[2])
    r = V.concretize(irr, 4)
    s = bool(second)
    with V.fast():
        ok, fact = scenario(k, P[q][0], P[q][1], r, s)
    return V.verdict(ok, fact)


def PLAN(tier):
    """shard = [kind, max. number of differing attributes, first pair, last pair + 1, all irrelevant attributes / second SCM]"""
    q = tier == 'quick'
    P = []
    for k in range(len(KINDS)):
        maxd = 1 if q else 2
        n = len(pairs(k, maxd))
        step = 150
        for lo in range(0, n, step):
            P.append(dict(fn='check_scm', shard=[k, maxd, lo, min(n, lo + step), not q], timeout=600 if q else 3000))
    return P

"""C16 -- Workspace directories separate variants; clean removes only garbage.

Real code executed: bob.cmds.build.state.DevelopDirOracle (__fmt/__touch/__writeBack/
__openAndRefresh/prime) with a real sqlite file, LocalBuilder.developNameFormatter,
bob.state._BobState.getByNameDirectory (release mode), bob.cmds.build.clean.collectPaths
and the delete-set computation of doClean (run as the real command with RecipeSet /
BobState / os / removePath re-bound to stubs).
Symbolic: a HISTORY of three recipe generations -- which variants of a recipe exist in
each generation, the traversal order -- and for clean which directories exist, which
stored digests match, the command-line flags.
"""
import os
import shutil
import sys
import tempfile
from lib import V
sys.path.insert(0, V.REPO + '/pym')

import bob.cmds.build.state as ST
import bob.cmds.build.clean as CL
import bob.state as BS
from bob.builder import LocalBuilder

NO_SOLVER_TIMEOUT = True
ENCODED = ['bob.cmds.build.state.DevelopDirOracle.__fmt', 'bob.cmds.build.state.DevelopDirOracle.__touch',
           'bob.cmds.build.state.DevelopDirOracle.__writeBack', 'bob.cmds.build.state.DevelopDirOracle.__openAndRefresh',
           'bob.cmds.build.state.DevelopDirOracle.prime', 'bob.builder.LocalBuilder.developNameFormatter',
           'bob.builder.LocalBuilder.makeRunnable', 'bob.state._BobState.getByNameDirectory',
           'bob.cmds.build.clean.collectPaths', 'bob.cmds.build.clean.doClean', 'bob.cmds.build.clean.checkRegularSource']
STUBS = ['packages/steps/recipes are stubs with the attributes the code reads; RecipeSet, BobState (dictionary backed), '
         'os.path.exists, removePath, getScm().status re-bound in bob.cmds.build.clean',
         'sqlite files live in a per-process scratch directory']
ASSUMPTIONS = ['Variant-Ids identify what a step executes (C02)']
BOUNDS = ('develop mode: recipe "lib" with variants {1,2,3} and recipe "lib-x" sharing the ids of variant 1, three generations, '
          'each with an arbitrary subset of variants and traversal order; release mode: same histories through getByNameDirectory; '
          'clean: 2 recipes x 3 workspaces with arbitrary existence / digest match / flags')


def vid(kind, v):
    return (kind + b'%d' % v).ljust(20, b'.')


class Recipe:
    def __init__(self, name, pkgname=None):
        self.name, self.pkgname = name, pkgname or name

    def getName(self):
        return self.name

    def getPackageName(self):
        return self.pkgname


class Step:
    def __init__(self, pkg, label, variant, fmt):
        self.pkg, self.label, self.variant, self.fmt = pkg, label, variant, fmt

    def getPackage(self):
        return self.pkg

    def getVariantId(self):
        return self.variant

    def getLabel(self):
        return self.label

    def isCheckoutStep(self):
        return self.label == 'src'

    def isValid(self):
        return True

    def getWorkspacePath(self):
        return self.fmt(self, {})


class Package:
    _n = [0]

    def __init__(self, recipe, v, fmt, deps=()):
        Package._n[0] += 1
        self.id = Package._n[0]
        self.recipe = recipe
        self.v = v
        self.deps = list(deps)
        self.steps = {l: Step(self, l, vid(k, v), fmt) for l, k in (('src', b'S'), ('build', b'B'), ('dist', b'P'))}

    def _getId(self):
        return self.id

    def getRecipe(self):
        return self.recipe

    def getName(self):
        return self.recipe.pkgname

    def getDirectDepSteps(self):
        return [d.steps['dist'] for d in self.deps]

    def getCheckoutStep(self):
        return self.steps['src']

    def getBuildStep(self):
        return self.steps['build']

    def getPackageStep(self):
        return self.steps['dist']


class PackageSet:
    def __init__(self, root, key):
        self.root, self.key = root, key

    def getCacheKey(self):
        return self.key

    def getRootPackage(self):
        return self.root


_SCRATCH = []


def scratch():
    if not _SCRATCH:
        import atexit
        d = tempfile.mkdtemp(prefix='c16-%d-' % os.getpid(), dir='/dev/shm' if os.path.isdir('/dev/shm') else None)
        _SCRATCH.append(d)
        atexit.register(shutil.rmtree, d, True)
    return _SCRATCH[0]


class _Sqlite:
    Error = __import__('sqlite3').Error

    @staticmethod
    def connect(name, **kw):
        import sqlite3
        con = sqlite3.connect(os.path.join(scratch(), name), **kw)
        con.execute('PRAGMA synchronous=OFF')
        con.execute('PRAGMA journal_mode=MEMORY')
        return con


def generation(gen, libset, libx, reverse, g):
    """one Bob invocation in develop mode: returns {(recipe, label, variant): workspace dir}"""
    ST.sqlite3 = _Sqlite
    oracle = ST.DevelopDirOracle(LocalBuilder.developNameFormatter, None)
    fmt = LocalBuilder.makeRunnable(oracle.getFormatter())
    lib, libx_r = Recipe('lib'), Recipe('lib-x')
    pkgs = [Package(lib, v, fmt) for v in libset]
    if libx:
        pkgs.append(Package(libx_r, 1, fmt))
    if reverse:
        pkgs.reverse()
    root = Package(Recipe('root'), 9, fmt, pkgs)
    oracle.prime(PackageSet(root, b'gen%d' % g))
    out = {}
    for p in pkgs + [root]:
        for l, s in p.steps.items():
            out[(p.recipe.name, l, p.v)] = s.getWorkspacePath()
    close(oracle)
    return out


def close(oracle):
    """the process ends: its read transaction on the directory database goes away"""
    db = getattr(oracle, '_DevelopDirOracle__db', None)
    if db is not None:
        con = db.connection
        db.close()
        con.close()


def dev_history(gens):
    db = os.path.join(scratch(), '.bob-dev-dirs.sqlite3')
    if os.path.exists(db):
        os.unlink(db)
    prev = None
    for g, (libset, libx, rev) in enumerate(gens):
        cur = generation(g, libset, libx, rev, g)
        # separate variants: same directory => same (recipe, step kind, Variant-Id)
        seen = {}
        for k, d in cur.items():
            if d is None:
                return False, 'no-directory'
            if d in seen and seen[d] != k:
                return False, 'shared-directory'
            seen[d] = k
            base = LocalBuilder.developNameFormatter(Step(Package(Recipe(k[0]), k[2], None), k[1], b'', None), {})
            if not d.startswith(base + os.sep):
                return False, 'foreign-base-directory'
        # a variant that still exists keeps its directory
        if prev is not None:
            for k, d in cur.items():
                if k in prev and prev[k] != d:
                    return False, 'moved'
        prev = cur
    return True, 'ok'


def check_dev(a0: bool, a1: bool, a2: bool, b0: bool, b1: bool, b2: bool, c0: bool, c1: bool, c2: bool,
              x0: bool, x1: bool, x2: bool, r0: bool, r1: bool, r2: bool, d0: bool, d1: bool, d2: bool) -> bool:
    """
    pre: a0 == bool(V.SHARD[0] & 1) and a1 == bool(V.SHARD[0] & 2) and a2 == bool(V.SHARD[0] & 4)
    pre: V.SHARD[1] or (not d0 and not d1 and not d2)
    post: _
    """
    V.enter()
    gens = []
    for (s, x, r) in (((a0, a1, a2), x0, r0), ((b0, b1, b2), x1, r1), ((c0, c1, c2), x2, r2)):
        gens.append(([i + 1 for i in range(3) if bool(s[i])], bool(x), bool(r)))
    if V.SHARD[1]:
        gens.append(([i + 1 for i, b in enumerate((d0, d1, d2)) if bool(b)], False, False))      # thorough: a fourth generation
    with V.fast():
        ok, fact = dev_history(gens)
    return V.verdict(ok, fact)


# ---------------------------------------------------------------- release ----
def rel_history(gens):
    """release mode: work/<recipe>/<label>/<n> by _BobState.getByNameDirectory (dictionary part only)"""
    st = BS._BobState.__new__(BS._BobState)
    st._BobState__byNameDirs = {}
    st._BobState__asynchronous = 1     # no persistence here (C10 covers it)
    st._BobState__dirty = False
    from bob.utils import asHexStr
    prev = None
    for (libset, libx, rev) in gens:
        keys = [('lib', l, v) for v in libset for l in ('src', 'build', 'dist')]
        if libx:
            keys += [('lib-x', l, 1) for l in ('src', 'build', 'dist')]
        if rev:
            keys.reverse()
        cur = {}
        for (r, l, v) in keys:
            base = os.path.join('work', r, l)
            kind = {'src': b'S', 'build': b'B', 'dist': b'P'}[l]
            cur[(r, l, v)] = st.getByNameDirectory(base, asHexStr(vid(kind, v)), l == 'src')
        byvid = {}
        for (r, l, v), d in cur.items():
            kind = {'src': b'S', 'build': b'B', 'dist': b'P'}[l]
            byvid.setdefault(d, set()).add(vid(kind, v))
        if any(len(s) > 1 for s in byvid.values()):
            return False, 'shared-directory'
        if prev is not None:
            for k, d in cur.items():
                if k in prev and prev[k] != d:
                    return False, 'moved'
        prev = cur
    return True, 'ok'


def check_rel(a0: bool, a1: bool, a2: bool, b0: bool, b1: bool, b2: bool, c0: bool, c1: bool, c2: bool,
              x0: bool, x1: bool, x2: bool, r0: bool, r1: bool, r2: bool, d0: bool, d1: bool, d2: bool) -> bool:
    """
    pre: a0 == bool(V.SHARD[0] & 1) and a1 == bool(V.SHARD[0] & 2) and a2 == bool(V.SHARD[0] & 4)
    pre: V.SHARD[1] or (not d0 and not d1 and not d2)
    post: _
    """
    V.enter()
    gens = []
    for (s, x, r) in (((a0, a1, a2), x0, r0), ((b0, b1, b2), x1, r1), ((c0, c1, c2), x2, r2)):
        gens.append(([i + 1 for i in range(3) if bool(s[i])], bool(x), bool(r)))
    if V.SHARD[1]:
        gens.append(([i + 1 for i, b in enumerate((d0, d1, d2)) if bool(b)], False, False))      # thorough: a fourth generation
    with V.fast():
        ok, fact = rel_history(gens)
    return V.verdict(ok, fact)


# ------------------------------------------------------------------ clean ----
class FakeState:
    def __init__(self):
        self.dirs = {}
        self.byname = {}
        self.attic = {}
        self.async_ = 0

    def getDirectoryState(self, p, isSrc):
        d = self.dirs.get(p, {} if isSrc else None)
        return d

    def getDirectories(self):
        return list(self.dirs)

    def getAllNameDirectores(self):
        return list(self.byname.values())

    def getExistingByNameDirectory(self, digest):
        return self.byname.get(digest, (None, False))[0]

    def delDirectoryState(self, p):
        self.dirs.pop(p, None)

    def getAtticDirectories(self):
        return list(self.attic)

    def delAtticDirectoryState(self, p):
        self.attic.pop(p, None)

    def setAsynchronous(self):
        self.async_ += 1

    def setSynchronous(self):
        self.async_ -= 1


class FakeRecipeSet:
    world = None

    def defineHook(self, name, fn):
        self.__dict__.setdefault('hooks', {})[name] = fn

    def getHook(self, name):
        return self.hooks[name]

    def setConfigFiles(self, f):
        pass

    def parse(self, defines=None):
        pass

    def generatePackages(self, nameFormatter, sandbox):
        return FakeRecipeSet.world(nameFormatter)


class ScmStatusStub:
    def __init__(self, expendable):
        self.expendable = expendable
        self.error = False

    def __str__(self):
        return ''


def clean_scenario(exists, match, dirty, flag_src, flag_dry, flag_force):
    """two recipes (liba, libb) whose packages are identical (same Variant-Ids); every workspace was
    built before.  exists[i], match[i] for i in 0..5 = (liba src, build, dist, libb src, build, dist);
    an extra stale directory of a package that no longer exists is always there."""
    db = os.path.join(scratch(), '.bob-dev-dirs.sqlite3')
    if os.path.exists(db):
        os.unlink(db)
    ST.sqlite3 = _Sqlite
    state = FakeState()
    ra, rb = Recipe('liba'), Recipe('libb')

    def world(fmt):
        pa, pb = Package(ra, 1, fmt), Package(rb, 1, fmt)
        root = Package(Recipe('root'), 9, fmt, [pa, pb])
        return PackageSet(root, b'k')
    FakeRecipeSet.world = staticmethod(world)
    # the directories the oracle hands out (first invocation = the build that created them)
    oracle = ST.DevelopDirOracle(LocalBuilder.developNameFormatter, None)
    fmt = LocalBuilder.makeRunnable(oracle.getFormatter())
    ps = world(fmt)
    oracle.prime(ps)
    pa, pb = ps.getRootPackage().deps
    paths = [pa.steps['src'].getWorkspacePath(), pa.steps['build'].getWorkspacePath(), pa.steps['dist'].getWorkspacePath(),
             pb.steps['src'].getWorkspacePath(), pb.steps['build'].getWorkspacePath(), pb.steps['dist'].getWorkspacePath()]
    rootpaths = [s.getWorkspacePath() for s in ps.getRootPackage().steps.values()]
    close(oracle)
    fsdirs = set(rootpaths)
    steps = [pa.steps['src'], pa.steps['build'], pa.steps['dist'], pb.steps['src'], pb.steps['build'], pb.steps['dist']]
    for i, p in enumerate(paths):
        if exists[i]:
            fsdirs.add(p)
        kind = i % 3
        v = steps[i].getVariantId() if match[i] else b'stale-digest........'
        if kind == 0:
            state.dirs[p] = {'.': (v, {'scm': 'git', 'dirty': dirty}), None: v}
        elif kind == 1:
            state.dirs[p] = [v, b'dep']
        else:
            state.dirs[p] = v
    for rp, s in zip(rootpaths, ps.getRootPackage().steps.values()):
        state.dirs[rp] = {'.': (b'x', None)} if s.label == 'src' else ([s.getVariantId()] if s.label == 'build' else s.getVariantId())
    stale = 'dev/dist/gone/1/workspace'
    state.dirs[stale] = b'old-variant.........'
    fsdirs.add(stale)
    removed = []

    class _Path:
        join = staticmethod(os.path.join)

        @staticmethod
        def exists(p):
            return p in fsdirs

    class _OS:
        path = _Path
    CL.os = _OS
    CL.BobState = lambda: state
    CL.RecipeSet = FakeRecipeSet
    CL.removePath = lambda p: (removed.append(p), fsdirs.discard(p))
    CL.print = lambda *a, **k: None

    class _Scm:
        def __init__(self, spec):
            self.spec = spec

        def status(self, ws):
            return ScmStatusStub(not self.spec.get('dirty'))
    CL.getScm = lambda spec: _Scm(spec)
    CL.checkoutsFromState = lambda st: [(d, v) for d, v in st.items() if d is not None]
    argv = ['--develop']
    if flag_src: argv.append('-s')
    if flag_dry: argv.append('--dry-run')
    if flag_force: argv.append('-f')
    before_dirs = set(fsdirs)
    made = []
    orig = ST.DevelopDirOracle

    class Tracked(orig):
        def __init__(self, *a, **k):
            super().__init__(*a, **k)
            made.append(self)
    CL.DevelopDirOracle = Tracked
    try:
        CL.doClean(argv, '/bobroot')
    finally:
        CL.DevelopDirOracle = orig
        for o in made:
            close(o)
    if flag_dry and (removed or fsdirs != before_dirs):
        return False, 'dry-run-deleted'
    if flag_dry:
        return True, 'dry'
    for i, p in enumerate(paths):
        kind = i % 3
        gone = p in removed
        if not exists[i]:
            if gone:
                return False, 'removed-non-existing'
            continue
        if kind == 0:
            # sources: belong to a current package -> never deleted (they are in use)
            if gone:
                return False, 'source-of-current-package-deleted'
        else:
            if match[i] and gone:
                return False, 'up-to-date-result-deleted'
    # (whether garbage is actually removed is not part of the statement: "deletes ONLY ...")
    if any(rp in removed for rp in rootpaths):
        return False, 'root-deleted'
    return True, 'ok'


def check_clean(e0: bool, e1: bool, e2: bool, e3: bool, e4: bool, e5: bool,
                m1: bool, m2: bool, m4: bool, m5: bool, dirty: bool, src: bool, dry: bool, force: bool) -> bool:
    """
    pre: e0 == bool(V.SHARD[0] & 1) and e1 == bool(V.SHARD[0] & 2) and e2 == bool(V.SHARD[0] & 4)
    post: _
    """
    V.enter()
    exists = [bool(x) for x in (e0, e1, e2, e3, e4, e5)]
    match = [True, bool(m1), bool(m2), True, bool(m4), bool(m5)]
    with V.fast():
        ok, fact = clean_scenario(exists, match, bool(dirty), bool(src), bool(dry), bool(force))
    return V.verdict(ok, fact)


def PLAN(tier):
    q = tier == 'quick'
    P = [dict(fn='check_dev', shard=[k, not q], timeout=400 if q else 3000) for k in range(8)]
    P += [dict(fn='check_rel', shard=[k, not q], timeout=400 if q else 3000) for k in range(8)]
    P += [dict(fn='check_clean', shard=[k], timeout=400) for k in range(8)]
    return P

"""C09 -- Archive uploads are atomic and never overwrite.

Real code executed: bob.archive.BaseArchive._uploadPackage/_uploadLocalFile,
LocalArchive._openUploadFile/_getPath/cachePackage, LocalArchiveUploader.__enter__/
__exit__, Tee/MirrorWriter/MirrorLeecher, as sequential "processes" interleaved at
file-system-operation granularity (lib.procs) on one SymFS.  Symbolic: the
schedule, a crash point per process, an injected I/O error (op index) per process.
A reader is modelled as an invariant evaluated after every global step.
"""
import sys
from lib import V
sys.path.insert(0, V.REPO + '/pym')

import bob.archive as BA
from bob.errors import BuildError
from lib.symfs import SymFS, FakeOS
from lib.procs import Proc, run_schedule

ENCODED = ['bob.archive.BaseArchive._uploadPackage', 'bob.archive.BaseArchive._uploadLocalFile',
           'bob.archive.BaseArchive.cachePackage', 'bob.archive.LocalArchive._openUploadFile',
           'bob.archive.LocalArchive._getPath', 'bob.archive.LocalArchiveUploader.__exit__',
           'bob.archive.LocalArchiveUploader.__enter__', 'bob.archive.Tee.__init__', 'bob.archive.Tee.__exit__',
           'bob.archive.MirrorWriter.__init__', 'bob.archive.MirrorWriter.commit', 'bob.archive.MirrorWriter.abort',
           'bob.archive.MirrorLeecher.read']
STUBS = ['file system = lib.symfs.SymFS, processes = lib.procs (replay scheduler; operations on a process\' own '
         'temporary file are not scheduling points: they commute with all operations of other processes)',
         'TarHelper._pack replaced by a writer of 3 chunks HDR/BODY/END tagged with the uploader (tar/gzip byte format is C08\'s subject)',
         'NamedTemporaryFile -> fresh per-process name in the destination directory', 'signal module stubbed']
ASSUMPTIONS = ['POSIX: link() fails with EEXIST if the destination exists, rename()/link()/unlink() are atomic',
               'temporary file names are unique per process']
BOUNDS = ('2 uploaders of one build-id with different payloads (optionally a cache-mirroring downloader or a '
          'metadata uploader as third party), every interleaving of their shared FS operations (symbolic prefix of '
          '<= 14 choices + fair completion), a crash at every operation of one process, one injected OSError at every operation')

BID = bytes(range(20))
ARCH = 'arch'


class Arch(BA.LocalArchive):
    def __init__(self, tag, flags=('upload', 'download')):
        super().__init__({'path': ARCH, 'flags': list(flags)})
        self.tag = tag

    def _pack(self, name, fileobj, audit, content):
        fileobj.write(b'HDR-' + self.tag)
        fileobj.write(b'-BODY-')
        fileobj.write(b'-END')


def complete(tag):
    return b'HDR-' + tag + b'-BODY--END'


class _Sig:
    SIGINT = 2
    SIG_DFL = 0
    default_int_handler = None

    @staticmethod
    def signal(*a):
        return None


def install(view):
    BA.os = FakeOS(view)
    BA.open = view.open
    BA.NamedTemporaryFile = getattr(view, 'named_temporary_file', None)
    BA.signal = _Sig
    BA.isWindows = lambda: False


def private(path):
    return '/tmp' in path and '-00' in path


def dest_path():
    a = Arch(b'x')
    return a._getPath(BID, BA.ARTIFACT_SUFFIX)[1]


def uploader(tag, nofail=False):
    def body(view):
        a = Arch(tag, ('upload', 'download') + (('nofail',) if nofail else ()))
        return BA.BaseArchive._uploadPackage(a, BID, BA.ARTIFACT_SUFFIX, 'audit', 'content')
    return body


def meta_uploader(content):
    def body(view):
        a = Arch(b'm')
        return BA.BaseArchive._uploadLocalFile(a, BID, BA.BUILDID_SUFFIX, content)
    return body


class Src:
    """the artifact being downloaded from another archive"""

    def __init__(self, data):
        self.data = data
        self.pos = 0

    def read(self, size=-1):
        if size < 0:
            size = len(self.data)
        r = self.data[self.pos:self.pos + size]
        self.pos += len(r)
        return r

    def close(self):
        pass


def mirror(tag, nofail):
    """cache-mirroring downloader: streams an artifact through Tee into the cache archive"""
    def body(view):
        cache = Arch(tag, ('upload', 'download', 'cache') + (('nofail',) if nofail else ()))
        with BA.Tee(None, Src(complete(tag)), BID, [cache], 'ws') as fo:
            while fo.read(6):
                pass
        return 'mirrored'
    return body


class Watch:
    """the reader: what is visible under the artifact name after every step"""

    def __init__(self, fs, dest, tags, procs):
        self.fs = fs
        self.dest = dest
        self.tags = tags
        self.first = None
        self.procs = procs

    def __call__(self):
        q = self.fs.norm(self.dest)
        n = self.fs.names.get(q)
        if n is None:
            if self.first is not None:
                return 'artifact vanished after it had been published'
            return None
        ok = any(n.data == complete(t) for t in self.tags)
        if not ok:
            return 'incomplete artifact visible under the artifact name: %r' % (n.data,)
        if self.first is None:
            self.first = (n.ino, n.data)
        elif self.first != (n.ino, n.data):
            return 'published artifact was replaced or modified'
        return None


def scenario(kind, sched, crash_at, fail_at, enospc):
    import errno
    fs = SymFS()
    install(fs)
    dest = dest_path()
    eno = errno.ENOSPC if enospc else errno.EIO
    plans = {'private': private}
    if kind == 0:       # two uploaders, no fault
        procs = [Proc('A', fs, uploader(b'A'), install, **plans), Proc('B', fs, uploader(b'B'), install, **plans)]
    elif kind == 1:     # uploader A is killed at a symbolic point
        procs = [Proc('A', fs, uploader(b'A'), install, crash_at=crash_at, **plans),
                 Proc('B', fs, uploader(b'B'), install, **plans)]
    elif kind == 2:     # uploader A hits an I/O error at a symbolic point
        procs = [Proc('A', fs, uploader(b'A'), install, fail_at=fail_at, fail_errno=eno, **plans),
                 Proc('B', fs, uploader(b'B'), install, **plans)]
    elif kind == 3:     # cache mirror with an I/O error (strict cache) against an uploader
        procs = [Proc('M', fs, mirror(b'M', False), install, fail_at=fail_at, fail_errno=eno, **plans),
                 Proc('B', fs, uploader(b'B'), install, **plans)]
    elif kind == 4:     # cache mirror of a nofail cache with an I/O error against an uploader
        procs = [Proc('M', fs, mirror(b'M', True), install, fail_at=fail_at, fail_errno=eno, **plans),
                 Proc('B', fs, uploader(b'B'), install, **plans)]
    elif kind == 5:     # mirror killed at a symbolic point
        procs = [Proc('M', fs, mirror(b'M', False), install, crash_at=crash_at, **plans),
                 Proc('B', fs, uploader(b'B'), install, **plans)]
    elif kind == 6:     # nofail uploader with I/O error alone, then a second uploader
        procs = [Proc('A', fs, uploader(b'A', True), install, fail_at=fail_at, fail_errno=eno, **plans),
                 Proc('B', fs, uploader(b'B'), install, **plans)]
    else:
        raise V.HarnessGap('kind')
    watch = Watch(fs, dest, [b'A', b'B', b'M'], procs)
    v = run_schedule(procs, sched, watch)
    if v:
        return False, v
    # final conditions
    n = fs.names.get(fs.norm(dest))
    first = procs[0]
    failed = first.died or (first.result[0] == 'exc') or \
        (first.result[0] == 'ret' and isinstance(first.result[1], tuple) and first.result[1][1] == BA.ERROR)
    if n is not None and failed and n.data == complete(first.name.encode()):
        # a failed/killed upload must not be what is published -- unless it had completed the publish
        # step before it failed (then the artifact is complete and valid, which the statement allows)
        if not any(t[0] == 'link' and t[2] == 'ok' for t in first.view.trace):
            return False, 'failed upload left its payload under the artifact name'
    for p in procs:
        if p.result[0] == 'exc' and not isinstance(p.result[1], BuildError):
            return False, 'process %s ended with internal exception %r' % (p.name, p.result[1])
    if all(not p.died and p.result[0] == 'ret' for p in procs) and kind == 0 and n is None:
        return False, 'nothing published although all uploads succeeded'
    return True, ('dead' if first.died else first.result[0])


def check_upload(c0: int, c1: int, c2: int, c3: int, c4: int, c5: int, c6: int, c7: int, c8: int,
                 c9: int, c10: int, c11: int, c12: int, c13: int, crash_at: int, fail_at: int,
                 enospc: bool) -> bool:
    """
    pre: 0 <= crash_at <= 30
    pre: 0 <= fail_at <= 30
    post: _
    """
    V.enter()
    kind = V.SHARD[0]
    sched = [c0, c1, c2, c3, c4, c5, c6, c7, c8, c9, c10, c11, c12, c13][:V.SHARD[1]]
    eno = bool(enospc) if kind in (2, 3, 4, 6) else False
    with V.fast():
        ok, fact = scenario(kind, sched, crash_at, fail_at, eno)
    return V.verdict(ok, fact if ok else 'violation')


def meta_scenario(sched, crash_at):
    fs = SymFS()
    install(fs)
    a = Arch(b'm')
    dest = a._getPath(BID, BA.BUILDID_SUFFIX)[1]
    c1, c2 = b'1' * 20, b'2' * 20
    procs = [Proc('A', fs, meta_uploader(c1), install, crash_at=crash_at, private=private),
             Proc('B', fs, meta_uploader(c2), install, private=private)]

    def inv():
        n = fs.names.get(fs.norm(dest))
        if n is not None and n.data not in (c1, c2):
            return 'partial metadata file visible: %r' % (n.data,)
        return None
    v = run_schedule(procs, sched, inv)
    if v:
        return False, v
    return True, 'ok'


def check_meta(c0: int, c1: int, c2: int, c3: int, c4: int, c5: int, c6: int, c7: int, c8: int,
               c9: int, crash_at: int) -> bool:
    """
    pre: 0 <= crash_at <= 30
    post: _
    """
    V.enter()
    sched = [c0, c1, c2, c3, c4, c5, c6, c7, c8, c9][:V.SHARD[0]]
    with V.fast():
        ok, fact = meta_scenario(sched, crash_at)
    return V.verdict(ok, fact if ok else 'violation')


def PLAN(tier):
    q = tier == 'quick'
    P = []
    for kind in range(7):
        P.append(dict(fn='check_upload', shard=[kind, 12 if q else 14], timeout=200 if q else 1200))
    P.append(dict(fn='check_meta', shard=[10], timeout=200 if q else 900))
    return P

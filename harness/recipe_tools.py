"""Recipe level: which tools a step sees, which of them are weak, and how that reaches the ids
(C02: "the same tools (providing package variant, path, library paths)"; C03 / C07: "the Build-Id
additionally ignores which variant of a weakly used tool is installed").

Real code executed: bob.input.RecipeSet.parse / generatePackages, Recipe.prepare (tool lists,
carry-forward checkout->build->package, weak/strong split, addTransitiveTools), CoreStep.getDigest,
bob.intermediate.StepIR.fromStep / getDigestCoro(relaxTools=True) through ExecutableStep, on a
generated project root -> {tool (provides t, optionally depending weakly/strongly on tool u), foo}.
Symbolic: the membership of tool t in each of the six lists {checkout,build,package}Tools[Weak] of
recipe foo and of its class (12 booleans), whether t itself depends on a second tool u strongly or
weakly.  Each combination is parsed twice: with variant 1 and variant 2 of the package providing t
(and u).
Oracle = documented rule (doc/manual/configuration.rst, "{checkout,build,package}Tools" and
"...ToolsWeak"): a tool used in one step is also available in the following ones; weak
inclusion has no effect if the tool is also listed strongly for that or an earlier step; the
Variant-Id of a step depends on the variant of every tool it sees, the Build-Id of a (build or
package) step only on the strongly used ones.
"""
import asyncio
import contextlib
import io
import os
import sys
from lib import V
sys.path.insert(0, V.REPO + '/pym')

from harness import C04_caches as G
import bob.cmds.build.build as CB
from bob.input import RecipeSet

NO_SOLVER_TIMEOUT = True
ENCODED = ['bob.input.Recipe.prepare', 'bob.input.addTransitiveTools', 'bob.input.CoreStep.getDigest', 'bob.input.CoreStep.getTools',
           'bob.intermediate.StepIR.fromStep', 'bob.intermediate.StepIR.getDigestCoro', 'bob.input.RecipeSet.parse']
STUBS = ['tty output discarded; source hash of a checkout step constant (same sources whatever the tool variant); platform and fingerprint constant']
ASSUMPTIONS = ['documented tool rules are the specification']
BOUNDS = ('one recipe + one inherited class, one tool t in any of the 2^12 list memberships, provided in two variants; '
          't optionally depends on a tool u strongly / weakly (dependTools / dependToolsWeak)')

LISTS = ['checkoutTools', 'checkoutToolsWeak', 'buildTools', 'buildToolsWeak', 'packageTools', 'packageToolsWeak']


def write(proj, bits, variant, udep):
    os.makedirs(os.path.join(proj, 'recipes'), exist_ok=True)
    os.makedirs(os.path.join(proj, 'classes'), exist_ok=True)

    def put(path, text):
        with open(os.path.join(proj, path), 'w') as f:
            f.write(text)
    put('config.yaml', 'bobMinimumVersion: "0.25"\n')
    dep = ''
    if udep == 1:
        dep = '        dependTools: [u]\n'
    elif udep == 2:
        dep = '        dependToolsWeak: [u]\n'
    put('recipes/tool.yaml', 'packageScript: "tool-v%d"\nprovideTools:\n    t:\n        path: "bin"\n%s    u: "ubin"\n' % (variant, dep))
    put('recipes/root.yaml', 'root: True\ndepends:\n  - name: tool\n    use: [tools]\n    forward: True\n  - foo\nbuildScript: "r"\npackageScript: "r"\n')
    rec, cls = {}, {}
    for i, l in enumerate(LISTS):
        if bits[i]:
            rec[l] = ['t']
        if bits[6 + i]:
            cls[l] = ['t']
    put('classes/cls.yaml', ''.join('%s: [t]\n' % l for l in cls) or 'buildVars: []\n')
    put('recipes/foo.yaml', 'inherit: [cls]\ncheckoutDeterministic: True\ncheckoutScript: "c"\nbuildScript: "b"\npackageScript: "p"\n' +
        ''.join('%s: [t]\n' % l for l in rec))


async def abuild_id(step, memo):
    key = step.getVariantId() + bytes([step.isCheckoutStep(), step.isBuildStep()])
    if key in memo:
        return memo[key]
    if step.isCheckoutStep():
        # the Build-Id of a checkout step is the hash of the sources it produced: here the same for both tool variants
        import hashlib
        memo[key] = hashlib.sha1(b'src').digest()
        return memo[key]

    async def calc(steps):
        return [await abuild_id(s, memo) for s in steps]
    memo[key] = await step.getDigestCoro(calc, fingerprint=b'', platform=b'linux', relaxTools=True)
    return memo[key]


def observe(bits, variant, udep):
    proj = G.fresh('tools')
    write(proj, bits, variant, udep)
    os.chdir(proj)
    rs = RecipeSet()
    rs.parse({})
    packages = rs.generatePackages(lambda s, m: 'unused', False)
    loop = asyncio.new_event_loop()
    try:
        root = packages.getRootPackage().getDirectDepSteps()[0].getPackage()
        foo = [s.getPackage() for s in root.getDirectDepSteps() if s.getPackage().getName() == 'foo'][0]
        out = []
        memo = {}
        for s in (foo.getCheckoutStep(), foo.getBuildStep(), foo.getPackageStep()):
            bid = None
            if not s.isCheckoutStep():
                bid = loop.run_until_complete(abuild_id(CB.ExecutableStep.fromStep(s, CB.LazyIR), memo))
            out.append({'tools': sorted(s.getTools().keys()), 'weak': sorted(s._coreStep.toolDepWeak), 'vid': s.getVariantId(), 'bid': bid})
        return out
    finally:
        loop.close()
        packages.close()
        for n in G._nodes:
            try:
                n.close()
            except Exception:
                pass
        G._nodes[:] = []


def scenario(bits, udep):
    G.install()
    cwd = os.getcwd()
    buf = io.StringIO()
    try:
        with contextlib.redirect_stderr(buf), contextlib.redirect_stdout(buf):
            o1 = observe(bits, 1, udep)
            o2 = observe(bits, 2, udep)
    finally:
        os.chdir(cwd)
    strong = weak = False
    for s in range(3):
        strong = strong or bits[2 * s] or bits[6 + 2 * s]
        weak = weak or bits[2 * s + 1] or bits[6 + 2 * s + 1]
        visible = strong or weak
        isweak = weak and not strong
        want_tools, want_weak = [], []
        if visible:
            want_tools.append('t')
            if isweak:
                want_weak.append('t')
            if udep:
                # "just their name is forwarded and added to the {checkout,build,package}Tools[Weak] of the using recipe"
                want_tools.append('u')
                if udep == 2:
                    want_weak.append('u')
        if o1[s]['tools'] != sorted(want_tools):
            return False, 'visibility step %d: %r' % (s, o1[s]['tools'])
        if o1[s]['weak'] != sorted(want_weak):
            return False, 'weak set step %d: %r (expected %r)' % (s, o1[s]['weak'], want_weak)
        if (o1[s]['vid'] != o2[s]['vid']) != visible:
            return False, 'variant-id step %d' % s
        if s >= 1:
            # Build-Id: depends on the tool variant iff some tool is seen strongly
            strongly = visible and (not isweak or udep == 1)
            if (o1[s]['bid'] != o2[s]['bid']) != strongly:
                return False, 'build-id step %d' % s
    return True, 'ok'


def check_tools(r0: bool, r1: bool, r2: bool, r3: bool, r4: bool, r5: bool,
                c0: bool, c1: bool, c2: bool, c3: bool, c4: bool, c5: bool, udep: int) -> bool:
    """
    pre: 0 <= udep <= 2
    pre: r0 == bool(V.SHARD[0] & 1) and r2 == bool(V.SHARD[0] & 2) and r4 == bool(V.SHARD[0] & 4) and r1 == bool(V.SHARD[0] & 8)
    pre: V.SHARD[1] or (udep == 0 and not (c0 and c2) and not (c3 and c5))
    post: _
    """
    V.enter()
    bits = [bool(b) for b in (r0, r1, r2, r3, r4, r5, c0, c1, c2, c3, c4, c5)]
    u = V.concretize(udep, 3)
    with V.fast():
        ok, fact = scenario(bits, u)
    return V.verdict(ok, fact)


def PLAN(tier):
    q = tier == 'quick'
    return [dict(fn='check_tools', shard=[k, not q], timeout=400 if q else 2000) for k in range(16)]

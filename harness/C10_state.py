"""C10 -- Workspace state commits atomically and is single-writer.

Real code executed symbolically: bob.state._BobState.__init__/__save/__commit/
finalize and the mutators, DigestAdder, with the real pickle/zlib/struct on
concrete dictionaries.  Environment: lib.symfs.SymFS bound to bob.state.os /
bob.state.open / bob.state.replacePath.  Symbolic: the sequence of mutator calls,
the crash point (index of the mutating FS operation that does not happen any
more), the power-loss image of files that were written but not fsync'ed.
"""
import sys
from typing import List
from lib import V
sys.path.insert(0, V.REPO + '/pym')

import copy
import bob.state as BS
from bob.errors import ParseError
from lib.symfs import SymFS, FakeOS, Crash

ENCODED = ['bob.state._BobState.__init__', 'bob.state._BobState.__save', 'bob.state._BobState.__commit',
           'bob.state._BobState.finalize', 'bob.state.DigestAdder.write', 'bob.state.DigestAdder.__exit__',
           'bob.state._BobState.setResultHash', 'bob.state._BobState.setInputHashes',
           'bob.state._BobState.delInputHashes', 'bob.state._BobState.setDirectoryState',
           'bob.state._BobState.setVariantId', 'bob.state._BobState.getByNameDirectory',
           'bob.state._BobState.resetWorkspaceState', 'bob.state._BobState.setAtticDirectoryState',
           'bob.state._BobState.setLayerState', 'bob.state._BobState.setBuildState',
           'bob.state._BobState.setAsynchronous', 'bob.state._BobState.setSynchronous',
           'bob.state._BobState.setStoragePath', 'bob.state._BobState.addJenkins',
           'bob.state._BobState.getJenkinsByNameDirectory', 'bob.state._BobState.delJenkins']
STUBS = ['file system = lib.symfs.SymFS (POSIX semantics of open/write/fsync/rename/unlink/O_EXCL); '
         'bob.state.os, bob.state.open, bob.state.replacePath (= os.replace on POSIX) re-bound to it',
         'print/colorize warnings silenced', 'sqlite build-id cache not touched by the exercised calls']
ASSUMPTIONS = ['rename() is atomic and directory operations reach the disk in order (ordered metadata); data written '
               'but not fsync()ed may be lost: the image after power loss is the full data, nothing, a prefix cut at one '
               'of 6 representative offsets, or one byte garbled at one of 6 representative offsets',
               'Adler-32 is only required to detect these generated images (adversarial forgery is outside any checksum)',
               'the user removes the stale lock file of a killed instance before the next start (as the statement says)']
BOUNDS = ('<= 2 (quick) / 3 (thorough) state-mutating calls drawn from 16 kinds incl. invocation boundary '
          '(finalize + fresh start) and asynchronous sections; every mutating FS operation is a crash point; '
          'optional second crash during recovery (thorough)')

FIELDS = ['byNameDirs', 'results', 'inputs', 'jenkins', 'dirStates', 'layerStates', 'buildState',
          'variantIds', 'atticDirs', 'storagePath']


def snap(s):
    return copy.deepcopy({k: getattr(s, '_BobState__' + k) for k in FIELDS})


class _Cfg:
    def dump(self):
        return {'url': {'scheme': 'http'}, 'roots': ['r']}


NKIND = 16


def apply(s, o, ctx):
    """one state-mutating API call; returns the (possibly new) instance"""
    if o == 0: s.setResultHash('p1', b'h1')
    elif o == 1: s.setResultHash('p1', b'h2')
    elif o == 2: s.setInputHashes('p1', [b'a', b'b'])
    elif o == 3: s.delInputHashes('p1')
    elif o == 4: s.setDirectoryState('p1', b'd1')
    elif o == 5: s.setVariantId('p1', b'v1')
    elif o == 6: s.getByNameDirectory('work/base', b'dig1', False)
    elif o == 7: s.resetWorkspaceState('p1', None)
    elif o == 8: s.setAtticDirectoryState('attic/x', {'scm': 'git'})
    elif o == 9: s.setLayerState('layers/l', b'ls')
    elif o == 10: s.setBuildState({'wasRun': {b'v': ('p1', True)}, 'predictedBuidId': {}})
    elif o == 11:
        s.setAsynchronous()
        ctx['async'] += 1
    elif o == 12:
        if ctx['async'] > 0:
            ctx['async'] -= 1
            s.setSynchronous()
    elif o == 13:
        if ctx['async'] == 0:
            s.finalize()
            ctx['completed'] = snap(s)
            ctx['saved'] = []
            s = BS._BobState()
    elif o == 14: s.setStoragePath('p1', 'store/p1')
    elif o == 15:
        if 'j' in s.getAllJenkins():
            s.getJenkinsByNameDirectory('j', 'base', b'dg')
        else:
            s.addJenkins('j', _Cfg())
    return s


CUTS = 6


def cut_pos(n, i):
    """representative offsets inside a file of n bytes"""
    c = [1, 4, n // 2, n - 5, n - 4, n - 1][i]
    if c < 0: c = 0
    if c >= n: c = n - 1 if n else 0
    return c


def power_loss(fs, torn, cut):
    """image after the crash: files whose content was not fsync()ed are torn"""
    changed = False
    for p, n in fs.names.items():
        if n.kind != 'f' or n.durable == n.data:
            continue
        d = n.data
        if torn == 0:
            continue                      # all data happened to reach the disk
        changed = True
        if torn == 1:
            n.data = n.durable if n.durable is not None else b''   # nothing new reached the disk
        elif torn == 2:
            n.data = d[:cut_pos(len(d), cut)]
        elif torn == 3 and d:
            i = cut_pos(len(d), cut)
            n.data = d[:i] + bytes([d[i] ^ 0x41]) + d[i + 1:]
    return changed


def install(fs):
    BS.os = FakeOS(fs)
    BS.open = fs.open
    BS.replacePath = fs.replace
    BS.print = lambda *a, **k: None
    BS.colorize = lambda s, *a, **k: s


def lock_guard(fs, what, args):
    """single-writer: every mutation of the state files happens while the lock is held"""
    for a in args:
        if isinstance(a, str) and a.startswith('.bob-state.pickle'):
            if '.bob-state.lock' not in fs.names:
                raise AssertionError('state file %s mutated (%s) without holding .bob-state.lock' % (a, what))


def run(ops, crash_at, torn, cut, crash2):
    # symbolic choices that select *what is done* are case-split here (solver decisions);
    # the scenario itself then runs natively (no symbolic value flows into it except
    # the crash index, which SymFS.tick compares under the solver)
    ops = [V.concretize(o, NKIND) for o in ops]
    torn = V.concretize(torn, 4)
    cut = V.concretize(cut, CUTS)
    if crash2 >= 0:
        crash2 = V.concretize(crash2, 7)
    with V.fast():
        return run_concrete(ops, crash_at, torn, cut, crash2)


def run_concrete(ops, crash_at, torn, cut, crash2):
    fs = SymFS(crash_at=crash_at)
    install(fs)
    fs.hook = lock_guard
    ctx = {'async': 0, 'completed': None, 'saved': []}
    crashed = False
    s = None
    try:
        s = BS._BobState()
        ctx['completed'] = snap(s)
        # every time the .dirty file is opened the current in-memory state is what gets written
        def hook(fs_, what, args):
            lock_guard(fs_, what, args)
            if what == 'open' and args[0].endswith('.dirty'):
                ctx['saved'].append(snap(cur[0]))
        cur = [s]
        fs.hook = hook
        for o in ops:
            s = apply(s, o, ctx)
            cur[0] = s
        if ctx['async'] == 0:
            s.finalize()
            ctx['completed'] = snap(s)
            ctx['saved'] = []
    except Crash:
        crashed = True
    fs.hook = None
    changed = False
    if crashed:
        changed = power_loss(fs, torn, cut)
    allowed = [ctx['completed']] + ctx['saved']
    if ctx['completed'] is None:
        allowed = [snap_empty()] + ctx['saved']
    # the user removes the stale lock; next start
    fs.names.pop('.bob-state.lock', None)
    fs.crashed = False
    fs.crash_at = None
    if crash2 >= 0:
        fs.crash_at = fs.ops + crash2
        try:
            s2 = BS._BobState()
            s2.finalize()
        except Crash:
            power_loss(fs, torn, cut)
        fs.names.pop('.bob-state.lock', None)
        fs.crashed = False
        fs.crash_at = None
    s2 = BS._BobState()
    loaded = snap(s2)
    s2.finalize()                    # an invocation that changes nothing (bob ls, an up-to-date build)
    ok = any(loaded == a for a in allowed)
    # ... and the start after that still finds the very same snapshot
    s3 = BS._BobState()
    ok = ok and snap(s3) == loaded
    s3.finalize()
    return ok, crashed, (changed, len(ctx['saved']))


def snap_empty():
    return {k: {} for k in FIELDS}


def check_crash(ops: List[int], crash_at: int, torn: int, cut: int) -> bool:
    """
    pre: 1 <= len(ops) <= V.SHARD[1]
    pre: all(0 <= o < NKIND for o in ops)
    pre: ops[0] == V.SHARD[0]
    pre: len(V.SHARD) < 3 or len(ops) < 2 or ops[1] == V.SHARD[2]
    pre: 0 <= crash_at <= 40
    pre: 0 <= torn <= 3
    pre: 0 <= cut < CUTS
    pre: torn >= 2 or cut == 0
    post: _
    """
    V.enter()
    try:
        ok, crashed, nsaved = run(ops, crash_at, torn, cut, -1)
    except Exception as e:
        return V.verdict(False, 'raised', type(e).__name__)
    return V.verdict(ok, 'crashed' if crashed else 'complete', nsaved[0], nsaved[1])


def check_double_crash(ops: List[int], crash_at: int, crash2: int, torn: int, cut: int) -> bool:
    """
    pre: 1 <= len(ops) <= V.SHARD[1]
    pre: all(0 <= o < NKIND for o in ops)
    pre: ops[0] == V.SHARD[0]
    pre: 0 <= crash_at <= 40
    pre: 0 <= crash2 <= 6
    pre: 0 <= torn <= 3
    pre: 0 <= cut < CUTS
    pre: torn >= 2 or cut == 0
    post: _
    """
    V.enter()
    try:
        ok, crashed, nsaved = run(ops, crash_at, torn, cut, crash2)
    except Exception as e:
        return V.verdict(False, 'raised', type(e).__name__)
    return V.verdict(ok, 'crashed' if crashed else 'complete', nsaved[0], nsaved[1])


def check_lock(ops: List[int]) -> bool:
    """
    pre: len(ops) <= V.SHARD[0]
    pre: all(0 <= o < NKIND for o in ops)
    post: _
    """
    V.enter()
    ops = [V.concretize(o, NKIND) for o in ops]
    with V.fast():
        r = lock_concrete(ops)
    return V.verdict(r[0] and r[1] and r[2], r[0], r[1], r[2])


def lock_concrete(ops):
    fs = SymFS()
    install(fs)
    fs.hook = lock_guard
    ctx = {'async': 0, 'completed': None, 'saved': []}
    s = BS._BobState()
    for o in ops:
        s = apply(s, o, ctx)
    before = fs.snapshot()
    refused = False
    try:
        BS._BobState()
    except ParseError:
        refused = True
    same = fs.snapshot() == before
    # ... and after the holder finished, a new instance is accepted again
    while ctx['async'] > 0:
        ctx['async'] -= 1
        s.setSynchronous()
    s.finalize()
    try:
        s3 = BS._BobState()
        s3.finalize()
        accepted = True
    except ParseError:
        accepted = False
    return refused, same, accepted


def PLAN(tier):
    P = []
    q = tier == 'quick'
    for k in range(NKIND):
        if q:
            P.append(dict(fn='check_crash', shard=[k, 2], timeout=200))
        else:
            for k2 in range(NKIND):
                P.append(dict(fn='check_crash', shard=[k, 3, k2], timeout=900))
            P.append(dict(fn='check_double_crash', shard=[k, 2], timeout=900))
    P.append(dict(fn='check_lock', shard=[2 if q else 3], timeout=200 if q else 900))
    return P

"""C14 -- Audit trails are complete and truthful.

Real code executed: bob.builder.LocalBuilder._generateAudit, bob.audit.Audit.create/
addDefine/addMetaEnv/addArg/addTool/setSandbox/__merge/save/load/fromFile/
getReferencedBuildIds/__validate and Artifact (dump/getId/getReferences), with the real
json/gzip/pickle on a scratch directory.  The audit trails of the dependencies are
produced by the same real code bottom-up (inductive hypothesis: they are closed).
Symbolic: the dependency structure of a small package set (which earlier steps are
arguments / tools / sandbox of which later step), the -M meta variables given by the
user (including names Bob reserves), whether the step was executed or downloaded.
"""
import asyncio
import os
import shutil
import sys
import tempfile
from lib import V
sys.path.insert(0, V.REPO + '/pym')

import bob.builder as BB
import bob.audit as BAU
from bob.audit import Audit

NO_SOLVER_TIMEOUT = True
ENCODED = ['bob.builder.LocalBuilder._generateAudit', 'bob.audit.Audit.create', 'bob.audit.Audit.addArg',
           'bob.audit.Audit.addTool', 'bob.audit.Audit.setSandbox', 'bob.audit.Audit.__merge', 'bob.audit.Audit.save',
           'bob.audit.Audit.load', 'bob.audit.Audit.fromFile', 'bob.audit.Audit.__validate',
           'bob.audit.Audit.getReferencedBuildIds', 'bob.audit.Artifact.dump', 'bob.audit.Artifact.getId',
           'bob.audit.Artifact.__calculateArtifactId', 'bob.audit.digestData']
STUBS = ['steps/packages/recipes are stubs; tty output (stepAction/stepMessage) silenced; recipe SCM audit returns {}',
         'workspaces live in a per-process scratch directory on the real file system']
ASSUMPTIONS = ['the audit trails of dependencies exist (the builder generates them before a dependent step runs)']
BOUNDS = ('4 steps s0..s3 in dependency order; for every pair (i<j) step j uses step i as nothing / argument / tool / sandbox; '
          'user meta variables: any subset of {recipe, package, step, bob, language, custom}; executed or not')

IDS = lambda i: (bytes([0x10 + i]) * 20, bytes([0x20 + i]) * 20, bytes([0x30 + i]) * 20)   # variant, build, result


class RS:
    async def getScmAudit(self):
        return {}


class Lang:
    class index:
        value = 'bash'


class Recipe:
    scriptLanguage = Lang

    def __init__(self, name):
        self.name = name

    def getName(self):
        return self.name

    def getRecipeSet(self):
        return RS()


class Pkg:
    def __init__(self, name):
        self.name = name
        self.recipe = Recipe('recipe-' + name)

    def getRecipe(self):
        return self.recipe

    def getStack(self):
        return ['root', self.name]

    def getMetaEnv(self):
        return {'LICENSE': 'GPL-' + self.name}

    def getName(self):
        return self.name


class Tool:
    def __init__(self, step):
        self.step = step

    def getStep(self):
        return self.step


class Step:
    def __init__(self, i, base):
        self.i = i
        self.pkg = Pkg('p%d' % i)
        self.ws = os.path.join(base, 'p%d' % i, 'dist', 'workspace')
        self.args, self.tools, self.sandbox = [], {}, None

    def getWorkspacePath(self):
        return self.ws

    def getPackage(self):
        return self.pkg

    def getLabel(self):
        return 'dist'

    def getVariantId(self):
        return IDS(self.i)[0]

    def getAuditFileNames(self):
        return {}

    def getTools(self):
        return self.tools

    def getSandbox(self):
        return self.sandbox

    def getArguments(self):
        return self.args

    def isValid(self):
        return True

    def isCheckoutStep(self):
        return False


class _Action:
    visible = False

    def __enter__(self):
        return self

    def __exit__(self, *a):
        return False

    def fail(self, *a, **k):
        pass

    def setResult(self, *a, **k):
        pass


_SCRATCH = []


def scratch():
    if not _SCRATCH:
        import atexit
        d = tempfile.mkdtemp(prefix='c14-%d-' % os.getpid(), dir='/dev/shm' if os.path.isdir('/dev/shm') else None)
        _SCRATCH.append(d)
        atexit.register(shutil.rmtree, d, True)
    return _SCRATCH[0]


USERKEYS = ['recipe', 'package', 'step', 'bob', 'language', 'custom']


def scenario(kinds, metamask, executed, rev=False):
    base = os.path.join(scratch(), 'proj')
    shutil.rmtree(base, ignore_errors=True)
    BB.stepAction = lambda *a, **k: _Action()
    BB.stepMessage = lambda *a, **k: None
    builder = BB.LocalBuilder(0, False, False, False, False, [], '/bobroot', False, True)
    meta = {k: 'USER-' + k for i, k in enumerate(USERKEYS) if metamask & (1 << i)}
    builder.setAuditMeta(meta)
    steps = [Step(i, base) for i in range(4)]
    pairs = [(0, 1), (0, 2), (0, 3), (1, 2), (1, 3), (2, 3)]
    uses = {j: [] for j in range(4)}
    for (i, j), k in zip(pairs, kinds):
        if k == 1:
            steps[j].args.append(steps[i])
        elif k == 2:
            # (tools are added to the audit in name order: with rev the tool that was itself built with another tool comes first)
            steps[j].tools['t%d' % ((9 - i) if rev else i)] = Tool(steps[i])
        elif k == 3:
            if steps[j].sandbox is None:
                steps[j].sandbox = Tool(steps[i])
            else:
                steps[j].args.append(steps[i])
                k = 1
        if k:
            uses[j].append(i)
    loop = asyncio.new_event_loop()
    try:
        paths = []
        for s in steps:
            os.makedirs(s.ws, exist_ok=True)
            with open(os.path.join(s.ws, '..', 'env'), 'w') as f:
                f.write('ENV-%d' % s.i)
            ex = True if s.i < 3 else executed
            p = loop.run_until_complete(builder._generateAudit(s, 0, IDS(s.i)[2], IDS(s.i)[1], ex))
            paths.append(p)
            if p is None:
                return False, 'no-audit-generated'
    finally:
        loop.close()
    # ---- the audit of the last step
    top = Audit.fromFile(paths[3])
    art = top.getArtifact()
    if not (art.getBuildId() == IDS(3)[1] and art.getResultHash() == IDS(3)[2] and
            bytes.fromhex(art.dump()['variant-id']) == IDS(3)[0]):
        return False, 'ids-of-head-record'
    m = art.getMetaData()
    if m.get('recipe') != 'recipe-p3' or m.get('package') != 'root/p3' or m.get('step') != 'dist':
        return False, 'names-in-head-record'
    if (metamask & 32) and m.get('custom') != 'USER-custom':
        return False, 'user-meta-lost'
    if art.getMetaEnv() != {'LICENSE': 'GPL-p3'}:
        return False, 'meta-environment'
    # transitive closure of what was used (only meaningful if the step was executed here)
    ids = [Audit.fromFile(p).getId() for p in paths]
    if executed:
        want = set()
        todo = list(uses[3])
        while todo:
            i = todo.pop()
            if i not in want:
                want.add(i)
                todo.extend(uses[i])
        refs = set(top._Audit__references.keys())
        if refs != set(ids[i] for i in want):
            return False, 'references-not-exactly-the-transitive-dependencies'
        direct = art.getReferences()
        if direct != set(ids[i] for i in uses[3]):
            return False, 'direct-dependencies'
        try:
            top._Audit__validate()
        except Exception:
            return False, 'not-closed'
        # the records inside are the dependencies' own head records
        for i in want:
            a = top.getArtifact(ids[i])
            if a.getBuildId() != IDS(i)[1] or a.getResultHash() != IDS(i)[2]:
                return False, 'foreign-record'
        if top.getReferencedBuildIds() != sorted(set(IDS(i)[1] for i in uses[3])):
            return False, 'referenced-build-ids'
    # artifact id is a function of the record content only: dict order / reload do not matter
    import json
    d = art.dump()
    shuffled = json.loads(json.dumps(d, sort_keys=True))
    a2 = BAU.Artifact.fromData({k: shuffled[k] for k in reversed(list(shuffled))})
    a2._Artifact__invalidateId()       # recompute from the record content
    if a2.getId() != art.getId():
        return False, 'artifact-id-depends-on-order'
    return True, 'ok'


def check_audit(k0: int, k1: int, k2: int, k3: int, k4: int, k5: int, metamask: int, executed: bool, rev: bool) -> bool:
    """
    pre: 0 <= k0 <= 3 and 0 <= k1 <= 3 and 0 <= k2 <= 3 and 0 <= k3 <= 3 and 0 <= k4 <= 3 and 0 <= k5 <= 3
    pre: 0 <= metamask <= 63
    pre: k2 == V.SHARD[0] and k4 == V.SHARD[1]
    pre: V.SHARD[2] or metamask == 0 or metamask == 63 or metamask == 2 or metamask == 33
    pre: V.SHARD[2] or rev == (V.SHARD[0] % 2 == 1)
    post: _
    """
    V.enter()
    kinds = [V.concretize(k, 4) for k in (k0, k1, k2, k3, k4, k5)]
    mm = V.concretize(metamask, 64)
    with V.fast():
        ok, fact = scenario(kinds, mm, bool(executed), bool(rev))
    return V.verdict(ok, fact)


def PLAN(tier):
    q = tier == 'quick'
    return [dict(fn='check_audit', shard=[a, b, not q], timeout=400 if q else 3000) for a in range(4) for b in range(4)]

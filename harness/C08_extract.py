"""C08 (confinement part) -- no archive member makes extraction create or modify a path
outside the target workspace and the audit file.

Real code executed: bob.archive.TarHelper._extract/__extractPackage, bob.utils.
tarfileOpen/_tarExtractFilter and the stdlib tarfile extraction machinery
(TarFile.extract/_extract_member/makefile/makedir/makelink_with_filter/...) loaded as a
private module copy whose os / open are bound to lib.symfs.SymFS; the archive itself is
a real pax tar stream built from the symbolic member list.
Symbolic: for each of 2 (quick) / 3 (thorough) members its name, type and link target
out of a hostile alphabet (.., absolute names, symlink-then-write, hard links pointing
outside, devices, unknown top-level entries), and the pax version header.
"""
import importlib.util
import io
import os
import sys
import tarfile as _realtar
from lib import V
sys.path.insert(0, V.REPO + '/pym')

import bob.archive as BA
import bob.utils as BU
from bob.errors import BuildError
from lib.symfs import SymFS, FakeOS

NO_SOLVER_TIMEOUT = True
ENCODED = ['bob.archive.TarHelper._extract', 'bob.archive.TarHelper.__extractPackage',
           'bob.utils._tarExtractFilter', 'bob.utils.tarfileOpen', 'tarfile.TarFile.extract',
           'tarfile.TarFile._extract_member', 'tarfile.TarFile.makelink_with_filter', 'tarfile.TarFile.makefile']
STUBS = ['file system = lib.symfs.SymFS bound to a private copy of the stdlib tarfile module (os, bltn_open), bob.utils.os, bob.archive.os/open/removePath',
         'os.geteuid() = 1000 (no chown), os.mknod/mkfifo create special nodes in SymFS']
ASSUMPTIONS = ['POSIX path resolution (symbolic links are resolved before a following ..)']
BOUNDS = ('archives of 2 (quick) / 3 (thorough) members; names from 16 hostile/benign names, 6 member types, 4 (quick) / 8 symlink targets, 4 (quick) / 7 hard link '
          'targets; pax version header right/wrong; workspace /proj/ws/content, files outside at several levels')

NAMES = ['content/f', 'content/d/f', 'content/../x', 'content/../../victim', '/abs', 'content//abs2', 'content/lnk',
         'content/lnk/pwned', 'content/d', 'meta/audit.json.gz', 'content', 'other', 'content/./g', '../x',
         'content/d/../../../victim', 'content/lnk/../pwned2']
TYPES = ['reg', 'dir', 'sym', 'lnk', 'chr', 'fifo']
SYMT = ['../../outside', '../../victim', '/outside', '..', 'f', 'd', '../..', 'lnk/x']
LNKT = ['content/../../victim', 'content/f', 'content/lnk', 'content/../victim2', 'victim', '../victim', 'content/d/f']


def sym_tarfile(fs):
    """private copy of the stdlib module bound to the stub file system"""
    spec = importlib.util.spec_from_file_location('tarfile_sym', _realtar.__file__)
    mod = importlib.util.module_from_spec(spec)
    spec.loader.exec_module(mod)
    fos = FakeOS(fs)
    fos.geteuid = lambda: 1000
    fos.getuid = lambda: 1000

    def mkfifo(p, mode=0o666):
        n = fs._new('p', mode & 0o777)
        q = fs._resolve(p, follow=False)
        if q in fs.names or q in fs.dirs:
            raise FileExistsError(p)
        fs._parent_ok(q)
        fs.tick('mkfifo', p)
        fs._bind(q, n)

    def mknod(p, mode=0o600, device=0):
        n = fs._new('c', mode & 0o777)
        q = fs._resolve(p, follow=False)
        if q in fs.names or q in fs.dirs:
            raise FileExistsError(p)
        fs._parent_ok(q)
        fs.tick('mknod', p)
        fs._bind(q, n)
    fos.mkfifo = mkfifo
    fos.mknod = mknod
    fos.makedev = lambda a, b: (a << 8) | b
    fos.lchown = lambda *a, **k: None
    fos.chown = lambda *a, **k: None
    fos.lchmod = lambda *a, **k: None
    mod.os = fos
    mod.bltn_open = fs.open
    return mod, fos


_MOD = {}


def build_tar(members, goodvsn):
    buf = io.BytesIO()
    pax = {'bob-archive-vsn': '1' if goodvsn else '2'}
    with _realtar.open(fileobj=buf, mode='w', format=_realtar.PAX_FORMAT, pax_headers=pax) as tar:
        for i, (name, typ, sym, lnk) in enumerate(members):
            ti = _realtar.TarInfo(name)
            ti.mode = 0o644
            data = None
            if typ == 'reg':
                data = b'PAYLOAD%d' % i
                ti.size = len(data)
            elif typ == 'dir':
                ti.type = _realtar.DIRTYPE
                ti.mode = 0o755
            elif typ == 'sym':
                ti.type = _realtar.SYMTYPE
                ti.linkname = sym
            elif typ == 'lnk':
                ti.type = _realtar.LNKTYPE
                ti.linkname = lnk
            elif typ == 'chr':
                ti.type = _realtar.CHRTYPE
                ti.devmajor, ti.devminor = 1, 3
            elif typ == 'fifo':
                ti.type = _realtar.FIFOTYPE
            tar.addfile(ti, io.BytesIO(data) if data is not None else None)
    return buf.getvalue()


WS = '/proj/ws'
CONTENT = WS + '/content'
AUDIT = WS + '/audit.json.gz'


def scenario(members, goodvsn):
    fs = SymFS()
    fs.mkdirs(WS)
    fs.mkdirs('/outside/sub')
    outside = {'/proj/victim': b'V1', '/victim': b'V2', '/proj/ws/victim': b'V3', '/outside/file': b'V4',
               '/proj/ws/victim2': b'V5', '/proj/x': b'V6', '/abs': b'V7', '/x': b'V8'}
    for p, d in outside.items():
        fs.put(p, d)
    # an old workspace content that extraction replaces
    fs.mkdirs(CONTENT)
    fs.put(CONTENT + '/old', b'old')
    fs.put(AUDIT, b'STALE-AUDIT-OF-AN-EARLIER-ARTIFACT')
    before_names = set(fs.names) | set(fs.dirs)
    before = {p: (fs.names[p].data, fs.names[p].mode, fs.names[p].nlink) for p in outside}
    mod, fos = sym_tarfile(fs)
    BU.os = fos
    BA.os = fos
    BA.open = fs.open
    BA.tarfile = mod
    BA.removePath = lambda p: (fs.rmtree(p) if fs.isdir(p) else (fs.unlink(p) if fs.lexists(p) else None))
    data = build_tar(members, goodvsn)
    saved = sys.modules['tarfile']
    sys.modules['tarfile'] = mod
    outcome = 'extracted'
    try:
        BA.TarHelper()._extract(io.BytesIO(data), AUDIT, CONTENT)
    except (BuildError, mod.TarError, OSError) as e:
        outcome = 'rejected'
    except Exception as e:
        # an internal error also means "not accepted"; confinement is still checked below
        outcome = 'crashed-' + type(e).__name__
    finally:
        sys.modules['tarfile'] = saved
    # nothing outside the workspace content and the audit file was created or modified
    for p, (d, m, nl) in before.items():
        n = fs.names.get(p)
        if n is None:
            return False, 'outside file removed'
        if n.data != d or n.mode != m:
            return False, 'outside file modified'
    after = set(fs.names) | set(fs.dirs)
    for p in after - before_names:
        if not (p == AUDIT or p == CONTENT or p.startswith(CONTENT + '/')):
            return False, 'created outside'
    for p in before_names - after:
        if not (p == AUDIT or p == CONTENT or p.startswith(CONTENT + '/')):
            return False, 'removed outside'
    # hard links from inside the workspace to outside inodes: later builds would write through them
    for p in after:
        if p.startswith(CONTENT + '/') and p in fs.names:
            n = fs.names[p]
            if n.kind == 'f' and any(fs.names.get(o) is n for o in outside):
                return False, 'hard link to outside inode'
    # the audit trail next to the workspace stems from THIS artifact or does not exist (the builder
    # rejects a download without audit trail by testing for the file)
    has_audit = any(m[0] == 'meta/audit.json.gz' and m[1] == 'reg' for m in members)
    n = fs.names.get(AUDIT)
    if outcome == 'extracted' and not has_audit and n is not None:
        return False, 'stale audit trail left in place'
    if outcome == 'extracted' and n is not None and n.data == b'STALE-AUDIT-OF-AN-EARLIER-ARTIFACT':
        return False, 'stale audit trail left in place'
    if not goodvsn and outcome == 'extracted':
        return False, 'wrong-format accepted'
    return True, outcome


def check_extract(n0: int, t0: int, l0: int, n1: int, t1: int, l1: int, n2: int, t2: int, l2: int, goodvsn: bool) -> bool:
    """
    pre: 0 <= n0 < 16 and 0 <= n1 < 16 and 0 <= n2 < 16
    pre: 0 <= t0 < 6 and 0 <= t1 < 6 and 0 <= t2 < 6
    pre: 0 <= l0 < 8 and 0 <= l1 < 8 and 0 <= l2 < 8
    pre: t0 == V.SHARD[0] and t1 == V.SHARD[1]
    pre: V.SHARD[2] >= 3 or (n2 == 0 and t2 == 0 and l2 == 0)
    pre: V.SHARD[3] < 0 or n0 == V.SHARD[3]
    pre: l0 < V.SHARD[4] and l1 < V.SHARD[4] and l2 < V.SHARD[4]
    pre: V.SHARD[5] or goodvsn
    pre: t0 in (2, 3) or l0 == 0
    pre: t1 in (2, 3) or l1 == 0
    pre: t2 in (2, 3) or l2 == 0
    pre: t0 != 3 or l0 < 7
    pre: t1 != 3 or l1 < 7
    pre: t2 != 3 or l2 < 7
    post: _
    """
    V.enter()
    nm = V.SHARD[2]
    specs = [(n0, t0, l0), (n1, t1, l1), (n2, t2, l2)][:nm]
    members = []
    for (n, t, l) in specs:
        n = V.concretize(n, 16)
        t = V.concretize(t, 6)
        l = V.concretize(l, 8)
        members.append((NAMES[n], TYPES[t], SYMT[l], LNKT[l] if l < 7 else LNKT[0]))
    good = bool(goodvsn)
    with V.fast():
        ok, fact = scenario(members, good)
    return V.verdict(ok, fact)


def PLAN(tier):
    P = []
    q = tier == 'quick'
    for a in range(6):
        for b in range(6):
            if q:
                P.append(dict(fn='check_extract', shard=[a, b, 2, -1, 4, a == 0 and b == 0], timeout=400))
            else:
                for n0 in range(16):
                    P.append(dict(fn='check_extract', shard=[a, b, 3, n0, 8, True], timeout=3000))
    return P


# ------------------------------------------------------------- real replay ----
def replay_real(fn, shard, args):
    """the same archive extracted by the unpatched code into a real temporary directory"""
    import shutil
    import tempfile
    import importlib
    import bob.archive
    import bob.utils
    importlib.reload(bob.utils)
    importlib.reload(bob.archive)
    nm = shard[2]
    specs = [(args['n0'], args['t0'], args['l0']), (args['n1'], args['t1'], args['l1']), (args['n2'], args['t2'], args['l2'])][:nm]
    members = [(NAMES[n], TYPES[t], SYMT[l], LNKT[l] if l < 7 else LNKT[0]) for (n, t, l) in specs]
    root = tempfile.mkdtemp(prefix='c08-real-')
    try:
        ws = os.path.join(root, 'proj', 'ws')
        os.makedirs(os.path.join(ws, 'content'))
        os.makedirs(os.path.join(root, 'outside', 'sub'))
        outside = {}
        for rel in ('proj/victim', 'victim', 'proj/ws/victim', 'outside/file', 'proj/ws/victim2', 'proj/x', 'abs', 'x'):
            p = os.path.join(root, rel)
            with open(p, 'wb') as f:
                f.write(b'V-' + rel.encode())
            outside[p] = b'V-' + rel.encode()
        before = set()
        for d, ds, fs_ in os.walk(root):
            for x in ds + fs_:
                before.add(os.path.join(d, x))
        data = build_tar(members, bool(args['goodvsn']))
        audit = os.path.join(ws, 'audit.json.gz')
        with open(audit, 'wb') as f:
            f.write(b'STALE-AUDIT-OF-AN-EARLIER-ARTIFACT')
        before.add(audit)
        extracted = True
        try:
            bob.archive.TarHelper()._extract(io.BytesIO(data), audit, os.path.join(ws, 'content'))
        except Exception:
            extracted = False
        bad = False
        if extracted and os.path.exists(audit) and open(audit, 'rb').read() == b'STALE-AUDIT-OF-AN-EARLIER-ARTIFACT':
            bad = True
        if extracted and not args['goodvsn']:
            bad = True
        for p in outside:
            if os.path.exists(p) and os.stat(p).st_nlink != 1:
                bad = True          # a hard link to a file outside the workspace was created
        for p, d in outside.items():
            if not os.path.exists(p) or open(p, 'rb').read() != d:
                bad = True
        after = set()
        for d, ds, fs_ in os.walk(root):
            for x in ds + fs_:
                after.add(os.path.join(d, x))
        allowed = os.path.join(ws, 'content')
        for p in after - before:
            if not (p == os.path.join(ws, 'audit.json.gz') or p.startswith(allowed + os.sep)):
                bad = True
        return bad
    finally:
        shutil.rmtree(root, ignore_errors=True)

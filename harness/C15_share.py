"""C15 -- Shared package store is safe under concurrent projects.

Real code executed symbolically: bob.share.LocalShare.gc / installSharedPackage /
useSharedPackage / __addPackage / contains, OpenLocked, checkUnused, sameWorkspace,
CopyMachine, on lib.symfs.SymFS with an flock model.
(a) one operation from an ARBITRARY VALID store: package sizes, ages, used-ness,
    presence, quota and the flags are symbolic (the solver reasons about the real
    size/quota arithmetic and the candidate ordering);
(b) two operations of different projects interleaved at FS-operation granularity.
"""
import sys
from lib import V
sys.path.insert(0, V.REPO + '/pym')

import bob.share as SH
from bob.errors import BuildError
from lib.symfs import SymFS, FakeOS, FakeJson, FakeShutil, FakeTempDir, WouldBlock
from lib.procs import Proc, run_schedule

ENCODED = ['bob.share.LocalShare.gc', 'bob.share.LocalShare.installSharedPackage',
           'bob.share.LocalShare.useSharedPackage', 'bob.share.LocalShare.__addPackage',
           'bob.share.LocalShare.contains', 'bob.share.OpenLocked.__enter__', 'bob.share.OpenLocked.__exit__',
           'bob.share.checkUnused', 'bob.share.sameWorkspace', 'bob.share.CopyMachine.__call__']
STUBS = ['file system + flock = lib.symfs.SymFS; json -> object codec (keeps symbolic sizes symbolic); '
         'shutil.copyfile/copytree/move/copystat, tempfile.TemporaryDirectory -> SymFS level implementations',
         'hashDirectoryWithSize -> content token hash of the SymFS tree + the symbolic size']
ASSUMPTIONS = ['flock semantics: shared/exclusive per open file description; rename of directories atomic',
               'a valid store: repo.json lists exactly the installed packages with their sizes, every visible package has pkg.json (hash, size, users) and its workspace']
BOUNDS = ('(a) <= 2 (quick) / 3 (thorough) packages with symbolic size 0..8 and symbolic quota None/0..20 and flags; presence, used-ness and age order enumerated as shards; '
          '(b) two processes, every interleaving (symbolic prefix <= 14 choices + fair completion), concrete small store')

STORE = '/share'
IDS = [bytes([0x10 + i] * 20) for i in range(3)]


def hexid(i):
    return IDS[i].hex()


def pkg_path(i):
    h = hexid(i) + SH.SHARED_GENERATION
    return '%s/%s/%s/%s' % (STORE, h[0:2], h[2:4], h[4:])


def tree_hash(fs, d):
    import hashlib
    h = hashlib.sha1()
    q = fs.norm(d)
    for k in sorted(fs.names):
        if k.startswith(q + '/'):
            n = fs.names[k]
            h.update(repr((k[len(q):], n.kind, n.data, n.target, n.mode)).encode())
    for k in sorted(fs.dirs):
        if k.startswith(q + '/'):
            h.update(k[len(q):].encode())
    return h.digest()


class Env:
    """binds bob.share's module globals to one file-system view"""

    def __init__(self):
        self.hash_mismatch = False
        self.size = 1

    def install(self, view):
        env = self
        SH.os = FakeOS(view)
        SH.open = view.open
        SH.json = FakeJson
        SH.shutil = FakeShutil(view)

        class _TF:
            @staticmethod
            def TemporaryDirectory(dir=None, **kw):
                return FakeTempDir(view, dir)
        SH.tempfile = _TF

        def lockFile(fd, exclusive):
            fd.flock(exclusive)

        def unlockFile(fd):
            fd.funlock()
        SH.lockFile = lockFile
        SH.unlockFile = unlockFile

        def hds(path, cache):
            hh = view.env_op('hashDirectory', lambda: tree_hash(getattr(view, 'shared', view), path), path)
            if env.hash_mismatch:
                hh = bytes(20)
            return hh, env.size
        SH.hashDirectoryWithSize = hds
        for w in ('warnRepoSize', 'warnGcDidNotHelp', 'warnNoShareConfigured', 'warnEscapedHardLink'):
            setattr(SH, w, _Quiet())


class _Quiet:
    def show(self, *a):
        pass

    def warn(self, *a):
        pass


def populate(fs, present, sizes, used, age_rank):
    """a valid store; package i is `present`, has size sizes[i], is used by project workspace
    /proj<i>/ws iff used[i]; smaller age_rank = older (pkg.json mtime)"""
    fs.mkdirs(STORE)
    pkgs = {}
    order = sorted(range(3), key=lambda i: age_rank[i])
    for i in order:
        if not present[i]:
            continue
        p = pkg_path(i)
        fs.mkdirs(p + '/workspace')
        fs.put(p + '/workspace/file', b'content%d' % i)
        fs.put(p + '/audit.json.gz', b'audit%d' % i)
        ws = '/proj%d/ws' % i
        n = fs.put(p + '/pkg.json', b'J')
        n.tag = {'hash': tree_hash(fs, p + '/workspace').hex(), 'size': sizes[i], 'users': [ws]}
        fs._touch(n)
        pkgs[hexid(i)] = sizes[i]
        fs.mkdirs('/proj%d' % i)
        if used[i]:
            nl = fs._new('l', 0o777)
            nl.target = p + '/workspace'
            fs._bind(fs.norm(ws), nl)
    n = fs.put(STORE + '/repo.json', b'J')
    n.tag = {'pkgs': pkgs}


def store_state(fs):
    """(set of installed package indices, repo.json pkgs dict or None)"""
    inst = set(i for i in range(3) if fs.norm(pkg_path(i)) in fs.dirs)
    n = fs.names.get(fs.norm(STORE + '/repo.json'))
    return inst, (None if n is None else n.tag)


def valid(fs, sizes):
    inst, repo = store_state(fs)
    if repo is None:
        return len(inst) == 0
    want = {hexid(i): sizes[i] for i in inst}
    return repo.get('pkgs', {}) == want


# ------------------------------------------------------------------ (a) gc ---
PERMS = [(0, 1, 2), (0, 2, 1), (1, 0, 2), (1, 2, 0), (2, 0, 1), (2, 1, 0)]


def check_gc(s0: int, s1: int, s2: int, u0: bool, u1: bool, u2: bool, has_quota: bool, quota: int,
             prune_unused: bool, dry: bool) -> bool:
    """
    pre: 0 <= s0 <= 8 and 0 <= s1 <= 8 and 0 <= s2 <= 8
    pre: 0 <= quota <= 20
    pre: has_quota or not V.SHARD[3]
    post: _
    """
    V.enter()
    # shard = [present mask, used mask or -1 (symbolic), age permutation, prune_used]
    pm, um, perm, prune_used = V.SHARD
    present = [bool(pm & 1), bool(pm & 2), bool(pm & 4)]
    if um >= 0:
        used = [bool(um & 1), bool(um & 2), bool(um & 4)]
    else:
        used = [bool(u0), bool(u1), bool(u2)]
    age = list(PERMS[perm])
    sizes = [s0, s1, s2]
    fs = SymFS()
    env = Env()
    env.install(fs)
    populate(fs, present, sizes, used, age)
    q = quota if has_quota else None
    share = SH.LocalShare({'path': STORE, 'quota': q})
    before = fs.snapshot()
    inst0 = set(i for i in range(3) if present[i])
    try:
        ret = share.gc(prune_used, prune_unused, dry)
    except BuildError:
        return V.verdict(False, 'BuildError')
    except Exception as e:
        return V.verdict(False, 'raised', type(e).__name__)
    inst1, repo = store_state(fs)
    removed = inst0 - inst1
    if q is None and not prune_unused:
        return V.verdict(ret is None and fs.snapshot() == before, 'noquota')
    if dry:
        return V.verdict(fs.snapshot() == before, 'dry')
    ok = valid(fs, sizes)
    total1 = sum(sizes[i] for i in inst1)
    ok = ok and ret == total1
    unused = set(i for i in inst0 if not used[i])
    if not prune_used:
        ok = ok and removed <= unused                       # never a package in use
    if prune_unused or prune_used:
        # manual `bob clean --shared --all-unused/--used`: the statement only fixes the safety part
        # (validity of the store, used packages only when forced); which packages go first is
        # documented in the man page but not part of C15 (observation in DESIGN.md)
        pass
    else:
        # automatic / default cleaning: unused, oldest first, until the quota is met
        for r in removed:
            for k in unused - removed:
                if age[k] < age[r]:
                    ok = False                              # a newer package went before an older one
        if removed:
            newest = max(removed, key=lambda i: age[i])
            ok = ok and (total1 + sizes[newest] > q)         # not one more than necessary
        if total1 > q:
            ok = ok and (unused <= removed)                  # stopped early although over quota
    return V.verdict(ok, 'gc', len(removed))


def check_gc_empty(state: int, has_quota: bool, quota: int, prune_used: bool, prune_unused: bool, dry: bool) -> bool:
    """
    pre: 0 <= state <= 1
    pre: 0 <= quota <= 20
    post: _
    """
    V.enter()
    state = V.concretize(state, 2)
    fs = SymFS()
    env = Env()
    env.install(fs)
    if state == 1:
        fs.mkdirs(STORE)         # directory exists, nothing installed yet (no repo.json)
    share = SH.LocalShare({'path': STORE, 'quota': quota if has_quota else None})
    before = fs.snapshot()
    try:
        share.gc(prune_used, prune_unused, dry)
    except Exception as e:
        return V.verdict(False, 'raised', type(e).__name__)
    return V.verdict(fs.snapshot() == before, 'empty', state)


# ------------------------------------------------------- (a) install / use ---
def mk_workspace(fs, name, content=b'new'):
    fs.mkdirs(name + '/ws/workspace')
    fs.put(name + '/ws/workspace/f', content)
    fs.put(name + '/ws/audit.json.gz', b'audit')
    return name + '/ws/workspace'


def check_install(s0: int, s1: int, newsize: int, has_quota: bool, quota: int, may_move: bool,
                  mismatch: bool, autoclean: bool) -> bool:
    """
    pre: 0 <= s0 <= 8 and 0 <= s1 <= 8 and 0 <= newsize <= 8
    pre: 0 <= quota <= 20
    post: _
    """
    V.enter()
    # shard = [store state, present mask, used mask]
    st, pm, um = V.SHARD
    sizes = [s0, s1, newsize]
    present = [bool(pm & 1), bool(pm & 2), False]
    used = [bool(um & 1), bool(um & 2), False]
    fs = SymFS()
    env = Env()
    env.install(fs)
    env.size = newsize
    env.hash_mismatch = bool(mismatch)
    if st == 0:
        populate(fs, present, sizes, used, [0, 1, 2])
    elif st == 1:
        present = [False, False, False]
        fs.mkdirs(STORE)          # store directory exists but is still empty
    else:
        present = [False, False, False]   # nothing exists yet
    ws = mk_workspace(fs, '/projN')
    wshash = tree_hash(fs, ws)
    q = quota if has_quota else None
    share = SH.LocalShare({'path': STORE, 'quota': q, 'autoClean': bool(autoclean)})
    try:
        path, installed = share.installSharedPackage(ws, IDS[2], wshash, bool(may_move))
    except BuildError:
        # documented cause: hash changed at destination
        inst, repo = store_state(fs)
        return V.verdict(bool(mismatch) and 2 not in inst and valid(fs, sizes), 'BuildError')
    except Exception as e:
        return V.verdict(False, 'raised', type(e).__name__)
    inst, repo = store_state(fs)
    ok = (not mismatch) and installed and path == pkg_path(2)
    ok = ok and valid(fs, sizes)
    if 2 in inst:
        n = fs.names.get(fs.norm(pkg_path(2) + '/pkg.json'))
        ok = ok and n is not None and n.tag['hash'] == wshash.hex() and \
            tree_hash(fs, pkg_path(2) + '/workspace') == wshash
    else:
        ok = False                      # the package just installed must never be collected
    # automatic cleaning removed only unused packages
    for i in range(2):
        if present[i] and i not in inst:
            ok = ok and (not used[i]) and autoclean and q is not None
    return V.verdict(ok, 'installed', st)


def check_use(p0: bool, u0: bool, again: bool) -> bool:
    """
    post: _
    """
    V.enter()
    fs = SymFS()
    env = Env()
    env.install(fs)
    present = [bool(p0), False, False]
    populate(fs, present, [3, 0, 0], [bool(u0), False, False], [0, 1, 2])
    share = SH.LocalShare({'path': STORE})
    ws = '/projX/ws' if not again else '/proj0/ws'
    try:
        path, h = share.useSharedPackage(ws, IDS[0])
    except Exception as e:
        return V.verdict(False, 'raised', type(e).__name__)
    if not present[0]:
        return V.verdict(path is None and h is None, 'absent')
    n = fs.names[fs.norm(pkg_path(0) + '/pkg.json')]
    ok = path == pkg_path(0) and h.hex() == n.tag['hash'] and ws in n.tag['users'] \
        and n.tag['users'].count(ws) == 1 and valid(fs, [3, 0, 0])
    return V.verdict(ok, 'used', again)


def check_use_then_gc(s0: int, s1: int, quota: int, which: int, first_time: bool) -> bool:
    """
    pre: 1 <= s0 <= 8 and 1 <= s1 <= 8
    pre: 0 <= quota <= 20
    pre: 0 <= which <= 1
    post: _
    """
    V.enter()
    # history: both packages installed (0 older than 1); a project uses package `which` again
    # (either registering a new workspace or one that is already recorded); later no workspace
    # links to the packages any more and the automatic cleaning has to free space
    which = V.concretize(which, 2)
    sizes = [s0, s1, 0]
    fs = SymFS()
    env = Env()
    env.install(fs)
    populate(fs, [True, True, False], sizes, [False, False, False], [0, 1, 2])
    share = SH.LocalShare({'path': STORE, 'quota': quota})
    ws = '/projX/ws' if first_time else '/proj%d/ws' % which
    try:
        share.useSharedPackage(ws, IDS[which])
        ret = share.gc(False, False)
    except Exception as e:
        return V.verdict(False, 'raised', type(e).__name__)
    inst, repo = store_state(fs)
    ok = valid(fs, sizes)
    other = 1 - which
    # "oldest usage first": the package used most recently may only go after the other one
    if which not in inst:
        ok = ok and other not in inst
    return V.verdict(ok, 'use-gc', len(inst))


# ------------------------------------------------------ (b) two processes ----
def installer(tag, size, quota, idx=2):
    def body(view):
        share = SH.LocalShare({'path': STORE, 'quota': quota})
        wsdir = '/proj%s' % tag
        return share.installSharedPackage(wsdir + '/ws/workspace', IDS[idx], body.h, False)
    return body


def user(i, ws):
    def body(view):
        share = SH.LocalShare({'path': STORE})
        r = share.useSharedPackage(ws, IDS[i])
        if r[0] is not None:
            # the builder links the workspace to the shared location afterwards
            view.symlink(r[0] + '/workspace', ws)
        return r
    return body


def collector(quota, prune_unused):
    def body(view):
        share = SH.LocalShare({'path': STORE, 'quota': quota})
        return share.gc(False, prune_unused)
    return body


def private(path):
    return '/tmpdir' in path


def scenario2(kind, sched):
    fs = SymFS()
    env = Env()
    env.install(fs)
    env.size = 4
    sizes = [3, 5, 4]

    def inst(view):
        env.install(view)
    if kind == 0:        # two projects install the same Build-Id
        populate(fs, [True, False, False], sizes, [True, False, False], [0, 1, 2])
        for t in 'AB':
            mk_workspace(fs, '/proj' + t, b'same')
        a, b = installer('A', 4, None), installer('B', 4, None)
        a.h = b.h = tree_hash(fs, '/projA/ws/workspace')
        procs = [Proc('A', fs, a, inst, private=private), Proc('B', fs, b, inst, private=private)]
    elif kind == 1:      # install (over quota -> auto gc) against a manual gc of another project
        populate(fs, [True, True, False], sizes, [False, True, False], [0, 1, 2])
        mk_workspace(fs, '/projA', b'same')
        a = installer('A', 4, 6)
        a.h = tree_hash(fs, '/projA/ws/workspace')
        procs = [Proc('A', fs, a, inst, private=private), Proc('G', fs, collector(6, False), inst, private=private)]
    elif kind == 2:      # a project starts using a package while another one collects garbage
        populate(fs, [True, True, False], sizes, [False, False, False], [0, 1, 2])
        fs.mkdirs('/projU')
        procs = [Proc('U', fs, user(0, '/projU/ws'), inst, private=private),
                 Proc('G', fs, collector(0, False), inst, private=private)]
    elif kind == 3:      # same with --all-unused
        populate(fs, [True, True, False], sizes, [False, True, False], [0, 1, 2])
        fs.mkdirs('/projU')
        procs = [Proc('U', fs, user(0, '/projU/ws'), inst, private=private),
                 Proc('G', fs, collector(None, True), inst, private=private)]
    elif kind == 4:      # install while another project uses a different package
        populate(fs, [True, False, False], sizes, [False, False, False], [0, 1, 2])
        mk_workspace(fs, '/projA', b'same')
        fs.mkdirs('/projU')
        a = installer('A', 4, None)
        a.h = tree_hash(fs, '/projA/ws/workspace')
        procs = [Proc('A', fs, a, inst, private=private), Proc('U', fs, user(0, '/projU/ws'), inst, private=private)]
    elif kind == 5:      # the very first installation into an empty store while another project cleans
        fs.mkdirs(STORE)
        sizes = [3, 5, 4]
        mk_workspace(fs, '/projA', b'same')
        a = installer('A', 4, 100)
        a.h = tree_hash(fs, '/projA/ws/workspace')
        procs = [Proc('A', fs, a, inst, private=private), Proc('G', fs, collector(100, True), inst, private=private)]
    elif kind == 6:      # two projects install DIFFERENT packages into a store that is still empty (no repo.json yet)
        fs.mkdirs(STORE)
        sizes = [3, 4, 4]
        mk_workspace(fs, '/projA', b'same')
        mk_workspace(fs, '/projB', b'other')
        a, b = installer('A', 4, None, 2), installer('B', 4, None, 1)
        a.h = tree_hash(fs, '/projA/ws/workspace')
        b.h = tree_hash(fs, '/projB/ws/workspace')
        procs = [Proc('A', fs, a, inst, private=private), Proc('B', fs, b, inst, private=private)]
    else:
        raise V.HarnessGap('kind')

    def invariant():
        # every package visible in the shared location is complete and matches its hash
        for i in range(3):
            p = fs.norm(pkg_path(i))
            if p in fs.dirs:
                n = fs.names.get(p + '/pkg.json')
                if n is None or n.tag is None:
                    return 'visible package %d without meta data' % i
                if tree_hash(fs, p + '/workspace').hex() != n.tag['hash']:
                    return 'visible package %d does not match its recorded hash' % i
        return None
    v = run_schedule(procs, sched, invariant)
    if v:
        return False, v
    for p in procs:
        if p.result[0] == 'exc':
            return False, 'process %s failed: %r' % (p.name, p.result[1])
    instd, repo = store_state(fs)
    if not valid(fs, sizes):
        return False, 'repo.json %r does not match installed packages %r' % (repo, sorted(instd))
    if kind == 0:
        n_inst = sum(1 for p in procs if p.result[1][1])
        if n_inst != 1 or 2 not in instd:
            return False, 'package installed %d times' % n_inst
    if kind in (2, 3):
        u = procs[0].result[1]
        if u[0] is not None and 0 not in instd:
            return False, 'package handed to a user was garbage collected'
    return True, 'ok'


def check_two(c0: int, c1: int, c2: int, c3: int, c4: int, c5: int, c6: int, c7: int, c8: int,
              c9: int, c10: int, c11: int, c12: int, c13: int) -> bool:
    """
    post: _
    """
    V.enter()
    sched = [c0, c1, c2, c3, c4, c5, c6, c7, c8, c9, c10, c11, c12, c13][:V.SHARD[1]]
    with V.fast():
        ok, fact = scenario2(V.SHARD[0], sched)
    return V.verdict(ok, fact if ok else 'violation')


def PLAN(tier):
    q = tier == 'quick'
    P = []
    if q:
        # two packages (third absent): all presence / used-ness / age combinations as shards
        for pm in range(4):
            for um in range(4):
                if um & ~pm:
                    continue
                for perm in (0, 2):
                    for pu in (False, True):
                        P.append(dict(fn='check_gc', shard=[pm, um, perm, pu], timeout=120))
        for perm in (0, 3, 5):
            P.append(dict(fn='check_gc', shard=[7, 0b010, perm, False], timeout=150))
    else:
        for pm in range(8):
            for perm in range(6):
                for pu in (False, True):
                    P.append(dict(fn='check_gc', shard=[pm, -1, perm, pu], timeout=1500))
    P.append(dict(fn='check_gc_empty', shard=[0], timeout=100))
    for st, pm, um in [(1, 0, 0), (2, 0, 0)] + [(0, pm, um) for pm in range(4) for um in range(4) if not um & ~pm]:
        P.append(dict(fn='check_install', shard=[st, pm, um], timeout=150 if q else 900))
    P.append(dict(fn='check_use', shard=[0], timeout=100))
    P.append(dict(fn='check_use_then_gc', shard=[0], timeout=150 if q else 600))
    for kind in range(7):
        P.append(dict(fn='check_two', shard=[kind, 10 if q else 14], timeout=250 if q else 1800))
    return P

"""C04 -- Package graph caches are transparent.

Real code executed: bob.input.RecipeSet.parse/generatePackages/__generatePackages,
Recipe.prepare (memo lookup PackageMatcher.matches/touch, Env touch tracking), YamlCache,
the persisted package pickle and the persisted .bob-tree.sqlite3 graph (PkgGraphNode.init),
PackageSet.queryPackagePath, on generated project files in a scratch directory.
Symbolic: which recipes of a chain root -> {r1, r2} -> top -> mid -> leaf (+ sandbox
provider, + optional dependency guarded by the sandbox state / by a variable) consume
a variable that r1 and r2 set differently, the dependency order, and a HISTORY of
invocations (edit of a recipe, -D override, sandbox on/off) in one project directory.
Oracle: the same real code with every cache disabled (memo never matches, fresh empty
directory): package paths, dependency structure, ids, environments must be identical.
"""
import os
import shutil
import sys
import tempfile
from lib import V
sys.path.insert(0, V.REPO + '/pym')

import bob.input as BI
import bob.pathspec as PS
from bob.input import RecipeSet

NO_SOLVER_TIMEOUT = True
ENCODED = ['bob.input.RecipeSet.parse', 'bob.input.RecipeSet.generatePackages', 'bob.input.Recipe.prepare',
           'bob.input.PackageMatcher.matches', 'bob.input.PackageMatcher.touch', 'bob.stringparser.Env.touch',
           'bob.stringparser.Env.touchReset', 'bob.stringparser.Env.touchedKeys', 'bob.pathspec.PkgGraphNode.init',
           'bob.pathspec.PackageSet.queryPackagePath']
STUBS = ['tty warnings silenced; sqlite/pickle caches are the real ones in a per-process scratch directory']
ASSUMPTIONS = ['"all caches disabled" = PackageMatcher.matches forced to False + Recipe.__corePackagesById never reuses + '
               'a fresh project directory']
BOUNDS = ('project of 13 recipes (+ tool providers, tool remapping, inherit: False, a second root recipe appearing / disappearing); 11 symbolic feature bits (who consumes X / Y, dependency order, transitive chain depth, conditional '
          'dependency, earlier visits of leaf / top with the variables unset); history of 3 invocations with symbolic sandbox on/off, -DZ override and one recipe edit')


def write(root, bits, edit, z, orphan=False):
    bits = list(bits) + [False] * (15 - len(bits))
    lx, mx, tx, direct, order, ly, cond, mpass, pre, r0x, plain, tl, remap, luse, noinh = bits
    os.makedirs(os.path.join(root, 'recipes'), exist_ok=True)
    def put(path, text):
        # an unchanged file is left alone (same inode and time stamps): the YAML cache of the next invocation hits
        try:
            with open(path) as f:
                if f.read() == text:
                    return
        except OSError:
            pass
        with open(path, 'w') as f:
            f.write(text)
    put(os.path.join(root, 'config.yaml'), 'bobMinimumVersion: "0.25"\n')

    def rec(name, text):
        put(os.path.join(root, 'recipes', name + '.yaml'), text)
    tool = 'tcc' if remap else 'cc'
    rm = '    tools: {tcc: cc}\n' if (tl and remap) else ''
    rec('leaf', 'packageScript: "leaf-%d"\n' % edit + ('packageVars: [%s]\n' % ', '.join((['X'] if lx else []) + (['Y'] if ly else []))
                                                   if (lx or ly) else '') +
        ('packageTools: [%s]\n' % tool if (tl and luse and not noinh) else ''))
    rec('mid', 'depends:\n  - name: leaf\n' + ('    inherit: False\n' if noinh else '') + 'packageScript: "mid"\n' +
        ('packageVars: [X]\n' if mx else '') + ('provideVars: {Y: "from-mid"}\n' if mpass else ''))
    deps = ['mid'] + (['leaf'] if direct else [])
    if order:
        deps.reverse()
    rec('top', 'depends:\n' + ''.join('  - name: %s\n%s' % (d, rm) for d in deps) + 'packageScript: "top"\n' +
        ('packageVars: [X]\n' if tx else ''))
    tdep = lambda t: ('  - name: %s\n    use: [tools]\n    forward: True\n' % t) if tl else ''
    rec('r1', 'depends:\n' + tdep('tca') + '  - name: top\n    environment: {X: "1", Y: "a"}\npackageScript: "r1"\n')
    rec('r2', 'depends:\n' + tdep('tcb') + '  - name: top\n    environment: {X: "2", Y: "a"}\npackageScript: "r2"\n')
    rec('r0', 'depends:\n  - name: leaf\n' + rm + ('    environment: {X: "1"}\n' if r0x else '') + 'packageScript: "r0"\n')
    rec('tca', 'packageScript: "tca"\nprovideTools:\n  cc: bin\n')
    rec('tcb', 'packageScript: "tcb"\nprovideTools:\n  cc:\n    path: bin\n    libs: [lib]\n  ld: bin\n')
    rec('sb', 'packageScript: "sb"\nprovideSandbox:\n  paths: ["/bin"]\n')
    rec('extra', 'packageScript: "extra"\n')
    rec('zdep', 'packageScript: "zdep"\npackageVars: [Z]\n')
    orph = os.path.join(root, 'recipes', 'orphan.yaml')
    if orphan:
        rec('orphan', 'root: True\npackageScript: "orphan"\n')
    elif os.path.exists(orph):
        os.unlink(orph)
    r = 'root: True\ndepends:\n  - name: sb\n    use: [sandbox]\n'
    if tl:
        r += '  - name: tca\n    use: [tools]\n    forward: True\n'
    if pre:
        r += '  - r0\n'
    if plain:
        r += '  - top\n'          # top reached with X, Y unset before r1/r2 set them
    first, second = ('r1', 'r2') if not order else ('r2', 'r1')
    r += '  - %s\n  - %s\n' % (first, second)
    if cond:
        r += '  - name: extra\n    if: "$(is-sandbox-enabled)"\n'
    r += '  - name: zdep\n    if: "${Z:-}"\n'
    r += 'packageScript: "root"\n'
    rec('root', r)


def dump(packages):
    """everything the statement lists: names and paths, dependency structure, scripts, environments, tools, sandbox, ids"""
    out = {}
    root = packages.getRootPackage()

    def walk(pkg, path):
        key = '/'.join(path)
        if key in out:
            return
        ps = pkg.getPackageStep()
        out[key] = (ps.getVariantId().hex(), tuple(sorted(ps.getEnv().items())), ps.getDigestScript(),
                    tuple(sorted(ps.getTools())), ps.getSandbox() is not None and ps.getSandbox().isEnabled(),
                    tuple(d.getPackage().getName() for d in pkg.getDirectDepSteps()),
                    tuple(d.getPackage().getName() for d in pkg.getIndirectDepSteps()))
        for d in list(pkg.getDirectDepSteps()) + list(pkg.getIndirectDepSteps()):
            walk(d.getPackage(), path + [d.getPackage().getName()])
    walk(root, [''])
    # a query lists every distinct package once (under one of its paths): compare what is listed, not which path was picked
    listed = sorted(set((p.getName(), p.getPackageStep().getVariantId().hex(), tuple(sorted(p.getPackageStep().getEnv().items())))
                        for p in packages.queryPackagePath('//*')))
    return out, listed


_nodes = []
_inst = []


class _NoReuse(dict):
    """Recipe.__corePackagesById with the reuse switched off: every computed package is kept as it is"""

    def setdefault(self, key, value):
        return value


def install():
    if _inst:
        return
    _inst.append(1)
    orig_init = PS.PkgGraphNode.init.__func__

    def _init(cls, *a, **k):
        n = orig_init(cls, *a, **k)
        _nodes.append(n)
        return n
    PS.PkgGraphNode.init = classmethod(_init)
    import bob.tty
    for w in ('Warn', 'WarnOnce'):
        pass


def one(root, defines, sandbox, nocache=False):
    os.chdir(root)
    orig = BI.PackageMatcher.matches
    if nocache:
        BI.PackageMatcher.matches = lambda self, *a, **k: False
    try:
        rs = RecipeSet()
        rs.parse(defines)
        if nocache:
            for r in rs._RecipeSet__recipes.values():
                r._Recipe__corePackagesById = _NoReuse()
        packages = rs.generatePackages(lambda s, m: 'unused', sandbox)
        try:
            try:
                return dump(packages)
            except Exception as e:
                return ({'<walk raised>': type(e).__name__}, [])
        finally:
            packages.close()
            for n in _nodes:
                try:
                    n.close()
                except Exception:
                    pass
            _nodes[:] = []
    finally:
        BI.PackageMatcher.matches = orig


_SCRATCH = []


def scratch():
    if not _SCRATCH:
        import atexit
        d = tempfile.mkdtemp(prefix='c04-%d-' % os.getpid(), dir='/dev/shm' if os.path.isdir('/dev/shm') else None)
        _SCRATCH.append(d)
        atexit.register(shutil.rmtree, d, True)
    return _SCRATCH[0]


def fresh(name):
    d = os.path.join(scratch(), name)
    shutil.rmtree(d, ignore_errors=True)
    os.makedirs(d)
    return d


def scenario(bits, hist):
    """hist: list of (sandbox, z, edit) per invocation in ONE project directory (caches warm)"""
    install()
    import io
    import contextlib
    cwd = os.getcwd()
    buf = io.StringIO()
    try:
        with contextlib.redirect_stderr(buf), contextlib.redirect_stdout(buf):
            proj = fresh('proj')
            for h in hist:
                (sandbox, z, edit), orphan = h[:3], (h[3] if len(h) > 3 else False)
                write(proj, bits, edit, z, orphan)
                defines = {'Z': '1'} if z else {}
                got = one(proj, defines, sandbox)
                ref = fresh('ref')
                write(ref, bits, edit, z, orphan)
                want = one(ref, defines, sandbox, nocache=True)
                if got[0] != want[0]:
                    return False, 'graph-differs-from-uncached'
                if got[1] != want[1]:
                    return False, 'query-result-differs-from-uncached'
        return True, 'ok'
    finally:
        os.chdir(cwd)


PRESETS = [[True, False, False, True, False, True, True, True, True, False, True],
           [True, True, False, False, True, False, True, False, True, True, False],
           [False, False, True, True, False, True, False, True, False, False, True]]


def check_caches(lx: bool, mx: bool, tx: bool, direct: bool, order: bool, ly: bool, cond: bool, mpass: bool,
                 pre: bool, r0x: bool, plain: bool) -> bool:
    """
    pre: lx == bool(V.SHARD[0] & 1) and mx == bool(V.SHARD[0] & 2) and tx == bool(V.SHARD[0] & 4) and direct == bool(V.SHARD[0] & 8)
    post: _
    """
    V.enter()
    bits = [bool(b) for b in (lx, mx, tx, direct, order, ly, cond, mpass, pre, r0x, plain)]
    hist = [(False, False, 0), (True, True, 1)]
    with V.fast():
        ok, fact = scenario(bits, hist)
    return V.verdict(ok, fact)


def check_tools(lx: bool, tx: bool, direct: bool, order: bool, pre: bool, plain: bool, remap: bool, luse: bool, noinh: bool) -> bool:
    """
    pre: remap == bool(V.SHARD[0] & 1) and noinh == bool(V.SHARD[0] & 2)
    post: _
    """
    V.enter()
    bits = [bool(b) for b in (lx, False, tx, direct, order, False, False, False, pre, False, plain, True, remap, luse, noinh)]
    hist = [(False, False, 0), (True, True, 1)]
    with V.fast():
        ok, fact = scenario(bits, hist)
    return V.verdict(ok, fact)


def check_files(o0: bool, o1: bool, o2: bool, o3: bool, s3: bool) -> bool:
    """files appearing / disappearing between invocations in one project directory (a further root recipe)
    post: _
    """
    V.enter()
    hist = [(False, False, 0, bool(o0)), (False, False, 0, bool(o1)), (False, False, 0, bool(o2)), (bool(s3), False, 0, bool(o3))]
    with V.fast():
        ok, fact = scenario(PRESETS[V.SHARD[0]], hist)
    return V.verdict(ok, fact)


def check_history(s0: bool, s1: bool, s2: bool, z1: bool, z2: bool, e1: bool, e2: bool) -> bool:
    """
    pre: V.SHARD[1] >= 3 or (not s2 and not z2 and not e2)
    post: _
    """
    V.enter()
    hist = [(bool(s0), False, 0), (bool(s1), bool(z1), 1 if e1 else 0)]
    if V.SHARD[1] >= 3:
        hist.append((bool(s2), bool(z2), 1 if e2 else 0))
    with V.fast():
        ok, fact = scenario(PRESETS[V.SHARD[0]], hist)
    return V.verdict(ok, fact)


def PLAN(tier):
    q = tier == 'quick'
    P = [dict(fn='check_caches', shard=[k], timeout=600 if q else 3000) for k in range(16)]
    P += [dict(fn='check_history', shard=[k, 2 if q else 3], timeout=600 if q else 3000) for k in range(3)]
    P += [dict(fn='check_tools', shard=[k], timeout=600 if q else 3000) for k in range(4)]
    P += [dict(fn='check_files', shard=[k], timeout=600) for k in range(1 if q else 3)]
    return P

"""C17 -- String substitution and conditions follow the documented language.

Real code executed symbolically: bob.stringparser.Env.substitute -> StringParser
(parse/nextToken/getString/getVariable/getBareVariable/getCommand), the fun*
string functions, isFalse, StringLiteral/FunctionCall/NotOperator/
BinaryStrOperator/BinaryBoolOperator.evalExpression.
Oracle: specs/subst_ref.py (independent interpreter of the documented grammar).
"""
import sys
from lib import V
sys.path.insert(0, V.REPO + '/pym')

import bob.stringparser as SP
from bob.errors import ParseError
from specs import subst_ref as R

ENCODED = ['bob.stringparser.Env.substitute', 'bob.stringparser.StringParser.parse',
           'bob.stringparser.StringParser.nextToken', 'bob.stringparser.StringParser.getString',
           'bob.stringparser.StringParser.getVariable', 'bob.stringparser.StringParser.getBareVariable',
           'bob.stringparser.StringParser.getCommand', 'bob.stringparser.StringParser.getSingleQuoted',
           'bob.stringparser.isFalse', 'bob.stringparser.funEqual', 'bob.stringparser.funNotEqual',
           'bob.stringparser.funNot', 'bob.stringparser.funOr', 'bob.stringparser.funAnd',
           'bob.stringparser.funIfThenElse', 'bob.stringparser.funSubst', 'bob.stringparser.funStrip',
           'bob.stringparser.funSandboxEnabled', 'bob.stringparser.funToolDefined',
           'bob.stringparser.funToolEnv', 'bob.stringparser.StringLiteral.evalExpression',
           'bob.stringparser.FunctionCall.evalExpression', 'bob.stringparser.NotOperator.evalExpression',
           'bob.stringparser.BinaryStrOperator.evalExpression',
           'bob.stringparser.BinaryBoolOperator.evalExpression']
STUBS = ['string functions match/matchScm/resubst removed from the function table (regex on '
         'symbolic strings is outside the claim; the reference answers dontcare for them)']
ASSUMPTIONS = ['documentation doc/manual/configuration.rst is the specification; inputs it '
               'leaves undefined (`${v:}`, $(subst) with empty pattern, booleans padded with '
               'white space) accept any non-internal outcome']

FUNS = dict(SP.DEFAULT_STRING_FUNS)
for _f in ('match', 'matchScm'):
    FUNS.pop(_f, None)


class _Tool:
    def __init__(self, environment):
        self.environment = environment


TOOLS_D = {'t': {'v': 'tv'}}
TOOLS = {k: _Tool(v) for k, v in TOOLS_D.items()}


def cls(c):
    if c == '$': return 0
    if c == '"': return 1
    if c == "'": return 2
    if c == '\\': return 3
    return 4


def mkenv(a_state, a_val):
    d = {'B': 'x'}
    if a_state == 1:
        d['a'] = ''
    elif a_state == 2:
        d['a'] = a_val
    return d


def real(text, envd, nounset, sandbox):
    env = SP.Env(envd)
    env.setFuns(FUNS)
    env.setFunArgs({'sandbox': sandbox, '__tools': TOOLS})
    try:
        return ('val', env.substitute(text, 'prop', nounset))
    except ParseError:
        return ('err',)
    except Exception as e:
        return ('internal', type(e).__name__)


def agree(r, x):
    if r[0] == 'internal':
        return False
    if x[0] == 'dontcare':
        return True
    if r[0] != x[0]:
        return False
    if r[0] == 'val':
        return r[1] == x[1]
    return True


def compare(text, a_state, a_val, nounset, sandbox=False):
    envd = mkenv(a_state, a_val)
    r = real(text, envd, nounset, sandbox)
    x = R.ref_subst(text, R.Ctx(dict(envd), nounset, sandbox, TOOLS_D))
    return V.verdict(agree(r, x), r[0], x[0])


def check_raw(text: str, a_state: int, a_val: str, nounset: bool) -> bool:
    """
    pre: len(text) == V.SHARD[0]
    pre: V.SHARD[0] == 0 or cls(text[0]) == V.SHARD[1]
    pre: V.SHARD[0] < 2 or V.SHARD[2] < 0 or cls(text[1]) == V.SHARD[2]
    pre: 0 <= a_state <= 2
    pre: len(a_val) <= 2
    post: _
    """
    V.enter()
    return compare(text, a_state, a_val, nounset)


# templates: fixed syntactic skeleton, symbolic holes x, y
TEMPLATES = [
    '${%s}', '${a-%s}', '${a:-%s}', '${a+%s}', '${a:+%s}', '${%s:-%s}', '${%s:+%s}',
    '"%s"%s', '"${a:-%s}"%s', "${a:-'%s'}%s", '$%s %s',
    '$(eq,%s,%s)', '$(ne,%s,%s)', '$(not,%s)', '$(or,%s,%s)', '$(and,%s,%s)',
    '$(if-then-else,%s,%s,B)', '$(if-then-else,1,%s,%s)', '$(strip,%s)',
    '$(subst,%s,%s,abab)', '$(subst,a,%s,%s)', '$(is-sandbox-enabled%s)',
    '$(is-tool-defined,%s)', '$(get-tool-env,%s,%s)', '$(get-tool-env,t,%s,%s)',
    '$(%s,%s)', '${a:-$(eq,%s,%s)}', '${a:+$(%s,%s)}', '$(eq,"%s",%s)',
    '${a:-"%s"}', '${a:+"%s"}', '${a-"$(%s)"}%s', '${a+"${%s}"}',
]


def fill(k, x, y):
    # plain concatenation: `%`-formatting would realise the symbolic holes
    parts = TEMPLATES[k].split('%s')
    if len(parts) == 2:
        return parts[0] + x + parts[1]
    return parts[0] + x + parts[1] + y + parts[2]


def check_tmpl(x: str, y: str, a_state: int, nounset: bool) -> bool:
    """
    pre: len(x) <= V.SHARD[1] and len(y) <= V.SHARD[2]
    pre: 0 <= a_state <= 2
    post: _
    """
    V.enter()
    k = V.SHARD[0]
    if TEMPLATES[k].count('%s') == 1 or V.SHARD[2] == 0:
        y = ''
    return compare(fill(k, x, y), a_state, 'v', nounset, V.SHARD[3])


def check_single_quote(s: str, a_state: int) -> bool:
    """
    pre: len(s) <= V.SHARD[0]
    pre: "'" not in s
    pre: 0 <= a_state <= 2
    post: _
    """
    V.enter()
    r = real("'" + s + "'", mkenv(a_state, 'v'), True, False)
    return V.verdict(r == ('val', s), r[0])


def check_escape(s: str, a_state: int) -> bool:
    """
    pre: len(s) <= V.SHARD[0]
    pre: 0 <= a_state <= 2
    post: _
    """
    V.enter()
    esc = ''.join(['\\' + c for c in s])
    r = real(esc, mkenv(a_state, 'v'), True, False)
    return V.verdict(r == ('val', s), r[0])


# ---- IfExpression: AST skeletons are parsed by the real grammar at import time
# (outside the tracer); the leaves are then replaced by StringLiteral objects
# constructed by the real constructor from symbolic strings.
SKELETONS = [
    "'S0' == 'S1'", "'S0' != 'S1'", "'S0' < 'S1'", "'S0' <= 'S1'", "'S0' > 'S1'", "'S0' >= 'S1'",
    "'S0' && 'S1'", "'S0' || 'S1'", "!'S0'", "'S0'", '"D0" == \'S1\'', '"D0"', '!"D0" || \'S1\'',
    "eq('S0', 'S1')", "not('S0') && 'S1'", "'S0' == 'S1' || 'S0' < 'S1'",
    "!('S0' == 'S1')", "'S0' < 'S1' && 'S1' < 'S0'", "or('S0', \"D1\")", "'S0' != 'S1' && !'S0'",
    "strip('S0') == 'S1'", "if-then-else('S0', 'S1', 'S0')",
]
N_HAND = len(SKELETONS)


def _gen_skeletons(ops):
    """every expression of nesting depth <= 2 the documented grammar allows over the given binary operators and '!',
    well typed or not (a comparison of a boolean result is grammatical; its operand type is documented as String)"""
    lit = ["'S0'", "'S1'"]
    d1 = [lit[0], '!' + lit[0]] + ['%s %s %s' % (lit[0], o, lit[1]) for o in ops]
    out = []
    for a in d1[1:]:
        out.append('!(%s)' % a)
        out.append('!%s' % a)                  # precedence decides: !'S0' == 'S1' is (!'S0') == 'S1'
    for o in ops:
        for a in d1:
            for b in d1:
                if a in lit and b in lit:
                    continue
                out.append('%s %s %s' % (a if a in lit else '(%s)' % a, o, b if b in lit else '(%s)' % b))
                if a not in lit and not a.startswith('!'):
                    out.append('%s %s %s' % (a, o, lit[0]))       # chained: 'S0' == 'S1' == 'S0'
    seen, res = set(), []
    for x in out:
        if x not in seen:
            seen.add(x)
            res.append(x)
    return res


GEN_QUICK = _gen_skeletons(['=='])[:10] + ["('S0' && 'S1') == 'S0'", "'S0' && ('S0' == 'S1')", "(!'S0') && ('S0' == 'S1')", "'S0' == 'S1' == 'S0'"]
GEN_ALL = list(GEN_QUICK)
for _x in _gen_skeletons(['==', '&&']) + _gen_skeletons(['==', '<', '!=', '&&', '||']):
    if _x not in GEN_ALL:
        GEN_ALL.append(_x)
SKELETONS = SKELETONS + GEN_ALL
# only the skeleton of this condition is parsed (at import time, outside the tracer): pyparsing's infix_notation
# takes ~50 ms per expression
_PARSED = {}
if isinstance(V.SHARD, list) and V.SHARD and isinstance(V.SHARD[0], int) and 0 <= V.SHARD[0] < len(SKELETONS):
    _PARSED[V.SHARD[0]] = SP.IfExpressionParser.getInstance().parseExpression(SKELETONS[V.SHARD[0]])


def rebuild(node, vals):
    """copy of the parsed tree with StringLiteral leaves re-created by the real
    constructor from `vals`; returns (real tree, reference tree)"""
    if isinstance(node, SP.StringLiteral):
        ph = node.literal
        dbl = ph[0] == 'D'
        v = vals[int(ph[1])]
        return SP.StringLiteral(None, None, [v], dbl), ('lit', v, dbl)
    if isinstance(node, SP.NotOperator):
        a, b = rebuild(node.op, vals)
        n = SP.NotOperator.__new__(SP.NotOperator)
        n.op = a
        return n, ('not', b)
    if isinstance(node, (SP.BinaryBoolOperator, SP.BinaryStrOperator)):
        l, lr = rebuild(node.left, vals)
        r, rr = rebuild(node.right, vals)
        n = type(node)(None, None, [l, node.op, r])
        kind = 'bool' if isinstance(node, SP.BinaryBoolOperator) else 'str'
        return n, (kind, node.op, lr, rr)
    if isinstance(node, SP.FunctionCall):
        parts = [rebuild(a, vals) for a in node.args]
        n = SP.FunctionCall(None, None, [node.name] + [p[0] for p in parts])
        return n, ('call', node.name, [p[1] for p in parts])
    raise V.HarnessGap('unknown AST node ' + repr(type(node)))


def ref_str(t, ctx):
    k = t[0]
    if k == 'lit':
        if t[2]:
            o = R.ref_subst(t[1], ctx)
            if o[0] == 'err': raise R.RefError()
            if o[0] == 'dontcare': raise R.DontCare()
            return o[1]
        return t[1]
    if k == 'call':
        return R.call(ctx, t[1], [ref_str(a, ctx) for a in t[2]])
    # "Operand type: String" (bobpaths(7), operator table): the result of an operator is a boolean and not a string
    raise R.RefError()


def ref_bool(t, ctx):
    k = t[0]
    if k in ('lit', 'call'):
        return not R.is_false(ref_str(t, ctx))
    if k == 'not':
        return not ref_bool(t[1], ctx)
    if k == 'bool':
        l = ref_bool(t[2], ctx)
        r = ref_bool(t[3], ctx)
        return (l and r) if t[1] == '&&' else (l or r)
    if k == 'str':
        l = ref_str(t[2], ctx)
        r = ref_str(t[3], ctx)
        op = t[1]
        if op == '==': return l == r
        if op == '!=': return not (l == r)
        if op == '<': return l < r
        if op == '<=': return l < r or l == r
        if op == '>': return r < l
        if op == '>=': return r < l or l == r
    raise V.HarnessGap('bad ref node')


def check_ifexpr(s0: str, s1: str, a_state: int, a_val: str) -> bool:
    """
    pre: len(s0) <= V.SHARD[1] and len(s1) <= V.SHARD[1]
    pre: 0 <= a_state <= 2
    pre: len(a_val) <= 1
    post: _
    """
    V.enter()
    tree, rt = rebuild(_PARSED[V.SHARD[0]], [s0, s1])
    envd = mkenv(a_state, a_val)
    env = SP.Env(envd)
    env.setFuns(FUNS)
    env.setFunArgs({'sandbox': False, '__tools': TOOLS})
    try:
        r = ('val', bool(tree.evalExpression(env)))
    except ParseError:
        r = ('err',)
    except Exception as e:
        r = ('internal', type(e).__name__)
    ctx = R.Ctx(dict(envd), False, False, TOOLS_D)
    try:
        x = ('val', ref_bool(rt, ctx))
    except R.RefError:
        x = ('err',)
    except R.DontCare:
        x = ('dontcare',)
    return V.verdict(agree(r, x), r[0], x[0])


# ------------------------------------------------------------------ plan ----
SLOW_TEMPLATES = (13, 14, 15, 16, 17, 19, 20, 23, 24)
BOOLISH = (6, 7, 8, 9, 11, 12, 14, 18, 19, 21)   # skeletons that interpret a literal as boolean


def PLAN(tier):
    P = []
    q = tier == 'quick'
    nmax = 4 if q else 6
    for n in range(0, nmax + 1):
        for c in range(5 if n else 1):
            if n >= 5:
                for c1 in range(5):
                    P.append(dict(fn='check_raw', shard=[n, c, c1], timeout=1200))
            else:
                P.append(dict(fn='check_raw', shard=[n, c, -1], timeout=150 if q else 600))
    if not q:
        for c in (0, 1, 3):
            for c1 in range(5):
                P.append(dict(fn='check_raw', shard=[7, c, c1], timeout=1800))
    for k in range(len(TEMPLATES)):
        two = TEMPLATES[k].count('%s') == 2
        hx, hy = ((1, 1) if two else (2, 0)) if q else ((2, 2) if two else (3, 0))
        if q and k == 20:
            continue             # $(subst,a,%s,%s): split/join on symbolic text does not finish in the quick budget
        if q and k in SLOW_TEMPLATES:
            hx, hy = (1, 0)      # boolean interpretation (strip/lower on symbolic text) is slow: one symbolic char
        for sb in ((False, True) if 'sandbox' in TEMPLATES[k] else (False,)):
            P.append(dict(fn='check_tmpl', shard=[k, hx, hy if two else 0, sb],
                          timeout=150 if q else 900))
    P.append(dict(fn='check_single_quote', shard=[4 if q else 6], timeout=150 if q else 600))
    P.append(dict(fn='check_escape', shard=[3 if q else 5], timeout=150 if q else 600))
    for k in range(len(SKELETONS)):
        if k >= N_HAND:
            if q and SKELETONS[k] not in GEN_QUICK:
                continue
            n = 1 if q else 2
        else:
            n = (1 if k in BOOLISH else 2) if q else (2 if k in BOOLISH else 3)
        P.append(dict(fn='check_ifexpr', shard=[k, n], timeout=150 if q else 900))
    return P


def describe(fn, shard):
    if fn == 'check_raw':
        return 'all texts of length %d, first char class %s, second %s' % (shard[0], '$"\'\\.'[shard[1]], shard[2])
    if fn == 'check_tmpl':
        return 'template %r, holes <= %d/%d chars' % (TEMPLATES[shard[0]], shard[1], shard[2])
    if fn == 'check_ifexpr':
        return 'IfExpression skeleton %r, literals <= %d chars' % (SKELETONS[shard[0]], shard[1])
    return '%s strings <= %d chars' % (fn, shard[0])


BOUNDS = ('raw text: every Unicode string of length <= 4 (quick) / <= 6, <= 7 for strings starting '
          'with $ " \\ (thorough); templates: holes <= 2/1 (quick), 3/2 (thorough) characters; env: '
          'variable a unset/empty/set (symbolic value <= 2 chars in raw mode), B="x", nounset symbolic')


def replay_real(fn, shard, args):
    """replay of a counterexample on the unpatched real module in plain CPython:
    the harness function itself only calls real bob.stringparser code, so the
    plain call *is* the real replay."""
    return None

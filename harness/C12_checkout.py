"""C12 -- Checkouts converge to the recipe and never destroy user work.

Real code executed: in-process `bob dev`, `bob dev --clean-checkout`, `bob clean -s [-v]`,
`bob clean --attic` (bob.cmds.build.build.doDevelop, bob.cmds.build.clean.doClean) with the
real builder checkout logic (LocalBuilder._cookCheckoutStep switch-or-attic loop,
AtticTracker, checkoutsFromState, compareDirectoryState), the real GitScm
(invoke / canSwitch / switch / status / __forwardBranch / __checkoutTagOnBranch), the real
Invoker spawning the REAL `git` binary and `bash`, real _BobState, on a scratch project in
/dev/shm with local upstream repositories.
Symbolic: the HISTORY -- a sequence of steps drawn from recipe SCM edits (branch, tag, commit
on branch, url, target directory, second SCM added/removed, package no longer referenced),
upstream changes (new commits), user edits in the source workspace (dirty tracked file,
untracked file, local commit, switch to another local branch, detached HEAD) and Bob
invocations.
Oracle: (no loss) everything the user created is afterwards still present under the project
(in place or in an attic directory): marker files / marker contents in a work tree, local
commits reachable from a ref or HEAD of a repository; (convergence) if the user touched
nothing, after a successful `bob dev` the source workspace without .git equals a fresh
checkout of the final specification made by the same code in an empty project.
"""
import contextlib
import io
import os
import shutil
import subprocess
import sys
import tempfile
from lib import V
sys.path.insert(0, V.REPO + '/pym')

import asyncio
import bob.state as BS
import bob.pathspec as PS
import bob.cmds.build.build as CB
import bob.cmds.build.clean as CC
import bob.cmds.build.state as ST
from bob.errors import BobError

NO_SOLVER_TIMEOUT = True
ENCODED = ['bob.cmds.build.build.commonBuildDevelop', 'bob.builder.LocalBuilder._cookCheckoutStep', 'bob.builder.AtticTracker',
           'bob.builder.checkoutsFromState', 'bob.builder.compareDirectoryState', 'bob.invoker.Invoker.executeStep',
           'bob.invoker.Invoker.executeScmSwitch', 'bob.scm.git.GitScm.invoke', 'bob.scm.git.GitScm.canSwitch',
           'bob.scm.git.GitScm.switch', 'bob.scm.git.GitScm.status', 'bob.scm.git.GitScm.__forwardBranch',
           'bob.scm.git.GitScm.__checkoutTagOnBranch', 'bob.cmds.build.clean.doClean', 'bob.cmds.build.clean.checkRegularSource',
           'bob.cmds.build.clean.checkAtticSource', 'bob.scm.scm.ScmStatus.expendable', 'bob.state._BobState']
STUBS = ['EventLoopWrapper without process pool / signal handlers; tty output discarded; sqlite handles of a finished invocation closed',
         'git and bash are the real binaries (environment of the code under test, executed natively)']
ASSUMPTIONS = ['the user works only inside the source workspace of the package', 'upstream history is only appended to (no rewinds)']
BOUNDS = ('project root -> lib, lib has one git SCM (optionally a second one in directory b); upstream repository with master c1-c2-c3 '
          '(+c4.. appended), branch dev, tags v1 v2, second upstream; history of <= 3 (quick) / 4 (thorough) steps out of 22 kinds '
          'followed by a final bob dev; every step kind first')

GITENV = {'GIT_AUTHOR_NAME': 't', 'GIT_AUTHOR_EMAIL': 't@t', 'GIT_COMMITTER_NAME': 't', 'GIT_COMMITTER_EMAIL': 't@t',
          'GIT_CONFIG_NOSYSTEM': '1', 'GIT_AUTHOR_DATE': '2020-01-01T00:00:00', 'GIT_COMMITTER_DATE': '2020-01-01T00:00:00',
          'GIT_TERMINAL_PROMPT': '0'}


def git(cwd, *args, check=True):
    p = subprocess.run(('git',) + args, cwd=cwd, stdout=subprocess.PIPE, stderr=subprocess.STDOUT, universal_newlines=True)
    if check and p.returncode != 0:
        raise V.HarnessGap('git %s failed: %s' % (' '.join(args), p.stdout))
    return p.stdout.strip()


def head_sha(repo):
    """commit id of HEAD, read from the repository files (process spawns are the bottleneck of this harness)"""
    gd = os.path.join(repo, '.git')
    h = open(os.path.join(gd, 'HEAD')).read().strip()
    if h.startswith('ref: '):
        try:
            return open(os.path.join(gd, h[5:])).read().strip()
        except OSError:
            return git(repo, 'rev-parse', 'HEAD')
    return h


def commit(repo, name, content, msg):
    """commit exactly this one file (other modifications stay uncommitted)"""
    with open(os.path.join(repo, name), 'w') as f:
        f.write(content)
    git(repo, 'add', name)
    git(repo, '-c', 'maintenance.auto=false', '-c', 'gc.auto=0', 'commit', '-q', '-m', msg, '--', name)
    return head_sha(repo)


_SCRATCH = []
_TEMPLATE = {}


def scratch():
    if not _SCRATCH:
        import atexit
        d = tempfile.mkdtemp(prefix='c12-%d-' % os.getpid(), dir='/dev/shm' if os.path.isdir('/dev/shm') else None)
        d = os.path.realpath(d)
        _SCRATCH.append(d)
        atexit.register(shutil.rmtree, d, True)
        os.environ.update(GITENV)
        os.environ['HOME'] = d
        os.environ.pop('XDG_CONFIG_HOME', None)
    return _SCRATCH[0]


def fresh(name):
    d = os.path.join(scratch(), name)
    shutil.rmtree(d, ignore_errors=True)
    os.makedirs(d)
    return d


def template():
    """upstream repositories, built once per process and copied per path"""
    if not _TEMPLATE:
        base = os.path.join(scratch(), 'template')
        os.makedirs(base)
        c = {}
        for u, fn, word in ((1, 'file.txt', 'first'), (2, 'other.txt', 'second')):
            up = os.path.join(base, 'up%d' % u)
            os.makedirs(up)
            git(up, 'init', '-q', '-b', 'master', '.')
            c['c1@%d' % u] = commit(up, fn, word + ' one\n', 'c1')
            git(up, 'tag', 'v1')
            git(up, 'branch', 'dev')
            c['c2@%d' % u] = commit(up, fn, word + ' two\n', 'c2')
            git(up, 'tag', 'v2')
            c['c3@%d' % u] = commit(up, fn, word + ' three\n', 'c3')
            git(up, 'checkout', '-q', 'dev')
            c['d1@%d' % u] = commit(up, 'dev.txt', word + ' dev one\n', 'd1')
            git(up, 'checkout', '-q', 'master')
        _TEMPLATE.update(base=base, commits=c)
    return _TEMPLATE


# ----------------------------------------------------------------- project ----
def initial():
    return {'url': 1, 'rev': 'branch', 'branch': 'master', 'commit': 'c2', 'tag': 'v1', 'dir': '.', 'second': False, 'dep': True}


def write_project(root, st, ups, commits):
    os.makedirs(os.path.join(root, 'recipes'), exist_ok=True)
    with open(os.path.join(root, 'config.yaml'), 'w') as f:
        f.write('bobMinimumVersion: "0.25"\n')
    with open(os.path.join(root, 'recipes', 'root.yaml'), 'w') as f:
        f.write('root: True\n')
        if st['dep']:
            f.write('depends: [lib]\n')
        f.write('buildScript: "true"\npackageScript: "true"\n')
    scm = '  - scm: git\n    url: "file://%s"\n' % ups[st['url']]
    if st['rev'] == 'branch':
        scm += '    branch: %s\n' % st['branch']
    elif st['rev'] == 'tag':
        scm += '    tag: %s\n' % st['tag']
    elif st['rev'] == 'commit':
        scm += '    commit: "%s"\n' % commits['%s@%d' % (st['commit'], st['url'])]
    elif st['rev'] == 'branch+commit':
        scm += '    branch: master\n    commit: "%s"\n' % commits['%s@%d' % (st['commit'], st['url'])]
    if st['dir'] != '.':
        scm += '    dir: %s\n' % st['dir']
    if st['second']:
        scm += '  - scm: git\n    url: "file://%s"\n    branch: master\n    dir: b\n' % ups[2]
    with open(os.path.join(root, 'recipes', 'lib.yaml'), 'w') as f:
        f.write('checkoutSCM:\n' + scm + 'buildScript: "true"\npackageScript: "true"\n')


# ------------------------------------------------------------ invocations ----
class ELW:
    def __enter__(self):
        self.loop = asyncio.new_event_loop()
        asyncio.set_event_loop(self.loop)
        return (self.loop, None)

    def __exit__(self, *a):
        try:
            self.loop.run_until_complete(self.loop.shutdown_asyncgens())
            self.loop.close()
        except Exception:
            pass
        return False


_made = []
_nodes = []
_installed = []


def install():
    if _installed:
        return
    _installed.append(1)
    CB.EventLoopWrapper = ELW

    class Tracked(ST.DevelopDirOracle):
        def __init__(self, *a, **k):
            super().__init__(*a, **k)
            _made.append(self)
    CB.DevelopDirOracle = Tracked
    CC.DevelopDirOracle = Tracked
    orig_init = PS.PkgGraphNode.init.__func__

    def _init(cls, *a, **k):
        n = orig_init(cls, *a, **k)
        _nodes.append(n)
        return n
    PS.PkgGraphNode.init = classmethod(_init)


def close_handles():
    for o in _made:
        db = getattr(o, '_DevelopDirOracle__db', None)
        if db is not None:
            try:
                con = db.connection
                db.close()
                con.close()
            except Exception:
                pass
    _made[:] = []
    for n in _nodes:
        try:
            n.close()
        except Exception:
            pass
    _nodes[:] = []
    if BS._BobState.instance is not None:
        BS.finalize()


def bob(root, kind, args):
    """one Bob invocation; returns 'ok' | 'error'"""
    os.chdir(root)
    buf = io.TextIOWrapper(io.BytesIO(), encoding='utf8', write_through=True)
    outcome = 'ok'
    try:
        with contextlib.redirect_stdout(buf), contextlib.redirect_stderr(buf):
            if kind == 'dev':
                CB.doDevelop(list(args), '/bobroot')
            else:
                CC.doClean(list(args), '/bobroot')
    except BobError:
        outcome = 'error'
    except SystemExit as e:
        outcome = 'ok' if not e.code else 'error'
    finally:
        close_handles()
    bob.last_output = buf.buffer.getvalue().decode('utf8', 'replace')
    return outcome


# ------------------------------------------------------------------- steps ----
KINDS = ['dev', 'dev-clean-checkout', 'clean-s', 'clean-s-v', 'clean-attic',
         'r-branch', 'r-tag', 'r-commit', 'r-commit-on-branch', 'r-bump', 'r-url', 'r-dir', 'r-second', 'r-dep',
         'u-commit',
         'w-dirty', 'w-untracked', 'w-commit', 'w-branch', 'w-branch-back', 'w-detach', 'w-dirty-second']
NK = len(KINDS)


def tree(path):
    out = {}
    for d, ds, fs in os.walk(path):
        if '.git' in ds:
            ds.remove('.git')
        for f in fs:
            p = os.path.join(d, f)
            try:
                out[os.path.relpath(p, path)] = open(p, 'rb').read()
            except OSError:
                out[os.path.relpath(p, path)] = None
    return out


def repos_below(path):
    out = []
    for d, ds, fs in os.walk(path):
        if '.git' in ds:
            out.append(d)
            ds.remove('.git')
    return out


def file_present(proj, name, content):
    src = os.path.join(proj, 'dev', 'src')
    for d, ds, fs in os.walk(src):
        if '.git' in ds:
            ds.remove('.git')
        if name in fs:
            try:
                if open(os.path.join(d, name)).read() == content:
                    return True
            except OSError:
                pass
    return False


def reachable_commits(proj):
    """all commits reachable from a ref or from HEAD of any repository below dev/src (work space or attic)"""
    out = set()
    for r in repos_below(os.path.join(proj, 'dev', 'src')):
        p = subprocess.run(['git', 'rev-list', '--all', 'HEAD'], cwd=r, stdout=subprocess.PIPE, stderr=subprocess.DEVNULL,
                           universal_newlines=True)
        if p.returncode != 0:       # unborn HEAD etc.
            p = subprocess.run(['git', 'rev-list', '--all'], cwd=r, stdout=subprocess.PIPE, stderr=subprocess.DEVNULL,
                               universal_newlines=True)
        out.update(p.stdout.split())
    return out


def present_items(proj, work):
    """which pieces of the user's work exist right now somewhere below the project"""
    reach = None
    out = []
    for item in work:
        if item[0] == 'file':          # (file, basename, content): such a file in some work tree
            ok = file_present(proj, item[1], item[2])
        elif item[0] == 'line':        # (line, text): an edit of a tracked file
            ok = line_preserved(proj, item[1])
        else:                          # (commit, sha, basename, content): reachable, or its content in a work tree
            if reach is None:
                reach = reachable_commits(proj)
            ok = item[1] in reach or file_present(proj, item[2], item[3])
        if ok:
            out.append(item)
    return out


REVS = ['branch', 'tag', 'commit', 'branch+commit']
_REF = {}       # fresh checkout of a specification (content is a function of specification + upstream commits)


def scenario(init, steps):
    """init: initial specification (bits 0-1: REVS, bit 2: second SCM); steps: list of indices into KINDS;
    a final `bob dev` is appended"""
    install()
    cwd = os.getcwd()
    t = template()
    try:
        commits = dict(t['commits'])
        st = initial()
        st['rev'] = REVS[init & 3]
        st['second'] = bool(init & 4)
        base = os.path.join(scratch(), 'world')
        ups = {1: os.path.join(base, 'up1'), 2: os.path.join(base, 'up2')}
        proj = os.path.join(base, 'proj')
        snap = os.path.join(scratch(), 'snap-%d' % init)
        shutil.rmtree(base, ignore_errors=True)
        if os.path.isdir(snap):
            # the state after the initial `bob dev` of this specification (same absolute paths), made by the code below
            shutil.copytree(snap, base, symlinks=True)
        else:
            os.makedirs(base)
            shutil.copytree(os.path.join(t['base'], 'up1'), ups[1])
            shutil.copytree(os.path.join(t['base'], 'up2'), ups[2])
            os.makedirs(proj)
            write_project(proj, st, ups, commits)
            if bob(proj, 'dev', ['-B', 'root']) != 'ok':
                raise V.HarnessGap('initial checkout failed: ' + bob.last_output[-400:])
            os.chdir(cwd)
            shutil.copytree(base, snap, symlinks=True)
        work = []                # what the user created
        touched = False
        nuser = [0]
        seq = [KINDS[k] for k in steps] + ['dev']

        def ws():
            return os.path.join(proj, 'dev', 'src', 'lib', '1', 'workspace')

        def scmdir():
            return os.path.join(ws(), st['dir']) if st['dir'] != '.' else ws()

        for idx, k in enumerate(seq):
            if os.environ.get('C12_DEBUG'):
                print('STEP', k, file=sys.__stderr__)
            if k.startswith('r-'):
                st = dict(st)
                if k == 'r-branch':
                    st['rev'] = 'branch'
                    st['branch'] = 'dev' if st['branch'] == 'master' else 'master'
                elif k == 'r-tag':
                    st['tag'] = 'v2' if (st['rev'] == 'tag' and st['tag'] == 'v1') else 'v1'
                    st['rev'] = 'tag'
                elif k == 'r-commit':
                    st['rev'] = 'commit'
                elif k == 'r-commit-on-branch':
                    st['rev'] = 'branch+commit'
                elif k == 'r-bump':
                    st['commit'] = {'c2': 'c3', 'c3': 'c1', 'c1': 'c2'}[st['commit']]
                elif k == 'r-url':
                    st['url'] = 3 - st['url']
                elif k == 'r-dir':
                    st['dir'] = 'sub' if st['dir'] == '.' else '.'
                elif k == 'r-second':
                    st['second'] = not st['second']
                elif k == 'r-dep':
                    st['dep'] = not st['dep']
                write_project(proj, st, ups, commits)
                continue
            if k == 'u-commit':
                n = len(commits)
                up = ups[st['url']]           # (the upstream work tree always stays on master)
                commits['x%d-u%d' % (n, st['url'])] = commit(up, 'file.txt' if st['url'] == 1 else 'other.txt', 'upstream %d\n' % n, 'x%d' % n)
                continue
            if k.startswith('w-'):
                d = scmdir()
                if k == 'w-dirty-second':
                    d = os.path.join(ws(), 'b')
                if not os.path.isdir(os.path.join(d, '.git')):
                    continue                          # nothing checked out there (yet): the user has nothing to edit
                nuser[0] += 1
                n = nuser[0]
                touched = True
                if k in ('w-dirty', 'w-dirty-second'):
                    tracked = [f for f in os.listdir(d) if f.endswith('.txt') and not f.startswith('user')]
                    if not tracked:
                        continue
                    # the user's edit is a new line at the end of a tracked file; remember the whole content under a unique name
                    name = sorted(tracked)[0]
                    with open(os.path.join(d, name), 'a') as f:
                        f.write('user edit %d\n' % n)
                    work.append(('line', 'user edit %d\n' % n))
                elif k == 'w-untracked':
                    with open(os.path.join(d, 'user-untracked-%d.txt' % n), 'w') as f:
                        f.write('untracked %d\n' % n)
                    work.append(('file', 'user-untracked-%d.txt' % n, 'untracked %d\n' % n))
                elif k == 'w-commit':
                    sha = commit(d, 'user-commit-%d.txt' % n, 'committed %d\n' % n, 'user %d' % n)
                    work.append(('commit', sha, 'user-commit-%d.txt' % n, 'committed %d\n' % n))
                elif k == 'w-branch':
                    git(d, 'checkout', '-q', '-b', 'scratch%d' % n, check=False)
                elif k == 'w-branch-back':        # park on a new branch at the previous commit
                    p = subprocess.run(['git', 'checkout', '-q', '-b', 'scratch%d' % n, 'HEAD~1'], cwd=d, stdout=subprocess.DEVNULL,
                                       stderr=subprocess.DEVNULL)
                    if p.returncode != 0:
                        git(d, 'checkout', '-q', '-b', 'scratch%d' % n, check=False)
                elif k == 'w-detach':
                    git(d, 'checkout', '-q', '--detach', check=False)
                continue
            # ---- Bob invocations
            # what of the user's work exists right now (the user may have dropped something himself, e.g. by leaving a
            # detached HEAD): only that can be lost by Bob
            before = present_items(proj, work)
            if k == 'dev':
                o = bob(proj, 'dev', ['-B', 'root'])
            elif k == 'dev-clean-checkout':
                o = bob(proj, 'dev', ['-B', 'root', '--clean-checkout'])
            elif k == 'clean-s':
                o = bob(proj, 'clean', ['-s'])
            elif k == 'clean-s-v':
                o = bob(proj, 'clean', ['-s', '-v'])
            elif k == 'clean-attic':
                o = bob(proj, 'clean', ['--attic'])
            if os.environ.get('C12_DEBUG'):
                print(o, bob.last_output, file=sys.__stderr__)
            # (1) nothing the user made is gone -- whatever Bob answered
            after = present_items(proj, before)
            for item in before:
                if item not in after:
                    return False, {'line': 'user-edit-lost', 'commit': 'user-commit-lost', 'file': 'user-file-lost'}[item[0]] + ' after ' + k
            # (2) convergence of an untouched workspace
            if k.startswith('dev') and not touched:
                if o != 'ok':
                    return False, 'untouched-workspace-not-updated (%s)' % k
                if st['dep']:
                    key = (tuple(sorted(st.items())), tuple(sorted(commits)))
                    if key not in _REF:
                        ref = os.path.join(base, 'ref')
                        shutil.rmtree(ref, ignore_errors=True)
                        os.makedirs(ref)
                        write_project(ref, st, ups, commits)
                        if bob(ref, 'dev', ['-B', 'root']) != 'ok':
                            raise V.HarnessGap('reference checkout failed: ' + bob.last_output[-400:])
                        _REF[key] = tree(os.path.join(ref, 'dev', 'src', 'lib', '1', 'workspace'))
                        shutil.rmtree(ref, ignore_errors=True)
                    want = _REF[key]
                    got = tree(ws())
                    if want != got:
                        return False, 'workspace-differs-from-fresh-checkout after ' + k
        return True, 'ok'
    finally:
        os.chdir(cwd)


def line_preserved(proj, line):
    src = os.path.join(proj, 'dev', 'src')
    for d, ds, fs in os.walk(src):
        if '.git' in ds:
            ds.remove('.git')
        for f in fs:
            try:
                if line in open(os.path.join(d, f), errors='replace').read():
                    return True
            except OSError:
                pass
    # a stash made by Bob?  (not used today; keep the oracle honest: look into stashes too)
    for r in repos_below(src):
        p = subprocess.run(['git', 'stash', 'list', '-p'], cwd=r, stdout=subprocess.PIPE, stderr=subprocess.DEVNULL,
                           universal_newlines=True)
        if p.returncode == 0 and line.strip() in p.stdout:
            return True
    return False


NW = 15                      # KINDS[:5] Bob invocations, [5:14] recipe edits, [14] upstream commit, [NW:] user edits


def family_ok(fam, n, s0, s1, s2, s3):
    """the history families of the plan (fam 0 = every history of length n)"""
    if n < 4 and s3 != 0:
        return False
    if n < 3 and s2 != 0:
        return False
    if fam == 0:
        return True
    if fam == 1:      # user edit, then anything but a user edit
        return s0 >= NW and s1 < NW
    if fam == 2:      # two user edits (make something, then move HEAD / make more), then a change of the specification
        return 15 <= s0 <= 17 and 17 <= s1 <= 20 and 5 <= s2 <= 11
    if fam == 3:      # user edit, package dropped from the recipes, then any invocation
        return s0 >= NW and s1 == 13 and s2 <= 4
    if fam == 4:      # no user edit: recipe / upstream change, then recipe / upstream change or invocation
        return 5 <= s0 <= 14 and s1 < NW
    if fam == 5:      # two user edits, then anything but a user edit
        return s0 >= NW and s1 >= NW and s2 < NW
    if fam == 6:      # no user edit, three steps
        return 5 <= s0 <= 14 and s1 < NW and s2 < NW
    return False


def check_history(init: int, s0: int, s1: int, s2: int, s3: int) -> bool:
    """
    pre: 0 <= init < 8
    pre: 0 <= s0 < NK and 0 <= s1 < NK and 0 <= s2 < NK and 0 <= s3 < NK
    pre: init == V.SHARD[0]
    pre: family_ok(V.SHARD[2], V.SHARD[1], s0, s1, s2, s3)
    pre: s0 % V.SHARD[3] == V.SHARD[4]
    post: _
    """
    V.enter()
    i = V.concretize(init, 8)
    steps = [V.concretize(s, NK) for s in (s0, s1, s2, s3)][:V.SHARD[1]]
    with V.fast():
        ok, fact = scenario(i, steps)
    return V.verdict(ok, fact)


def PLAN(tier):
    """shard = [initial specification, history length, family, modulus, residue of the first step].
    Process creation is serialised in this sandbox (~150 spawns/s whatever the parallelism) and a history costs 50-100
    spawns (git by Bob), so the plan is sized by the number of histories: quick ~600, thorough ~8000."""
    P = []

    def add(init, n, fam, mod=1, timeout=2400):
        for r in range(mod):
            P.append(dict(fn='check_history', shard=[init, n, fam, mod, r], timeout=timeout))
    if tier == 'quick':
        for i in (3, 4):
            add(i, 2, 1, 2)
        add(3, 3, 2, 3)
        add(4, 3, 3)
        for i in (0, 7):
            add(i, 2, 4, 2)
        return P
    for i in range(8):
        add(i, 2, 0, 2, 6000)
    for i in (3, 4):
        add(i, 3, 5, 7, 6000)
    for i in (4, 5, 6, 7):
        add(i, 3, 3, 1, 6000)
    add(0, 3, 6, 10, 6000)
    return P

"""C07 -- what LocalBuilder._getFingerprint mixes into the Build-Id (host fingerprint, relocation tag).

Real code executed: bob.builder.LocalBuilder._getFingerprint (coroutine driven by send(None); the fingerprint script
result comes from the builder's fingerprint cache, so no script runs).
Symbolic: whether the step is fingerprinted, whether its package is relocatable, whether it is a package step.
Oracle (doc/manual: "relocatable", "fingerprinting"): the value differs between two fingerprint script outputs iff the step is
fingerprinted; it differs between two workspace locations iff it is a package step of a non-relocatable package -- also when
the step is fingerprinted at the same time; otherwise it is the constant of "nothing to tag".
"""
import hashlib
import sys
from lib import V
sys.path.insert(0, V.REPO + '/pym')

import bob.builder as BB

ENCODED = ['bob.builder.LocalBuilder._getFingerprint']
STUBS = ['step stub (flags, exec path, fingerprint script); fingerprint script result injected through the builder-level cache']
ASSUMPTIONS = []
BOUNDS = '2^3 flag combinations x 2 fingerprint outputs x 2 workspace locations; no sandbox'


class Step:
    def __init__(self, fp, reloc, pkg, path):
        self.fp, self.reloc, self.pkg, self.path = fp, reloc, pkg, path

    def _isFingerprinted(self):
        return self.fp

    def isPackageStep(self):
        return self.pkg

    def isRelocatable(self):
        return self.reloc

    def getSandbox(self):
        return None

    def _getFingerprintScript(self):
        return 'echo fp'

    def getExecPath(self, *a):
        return self.path


def value(fp, reloc, pkg, out, path):
    b = BB.LocalBuilder.__new__(BB.LocalBuilder)
    key = hashlib.sha1('echo fp'.encode('utf8')).digest()
    b._LocalBuilder__fingerprints = {key: out}
    co = b._getFingerprint(Step(fp, reloc, pkg, path), 0)
    try:
        co.send(None)
    except StopIteration as e:
        return e.value
    raise V.HarnessGap('_getFingerprint awaited something')


def scenario(fp, reloc, pkg):
    v = {(o, p): value(fp, reloc, pkg, o, p) for o in (b'F1', b'F2') for p in ('/ws/a/dist/x/1/workspace', '/other/b/dist/x/1/workspace')}
    A, B = '/ws/a/dist/x/1/workspace', '/other/b/dist/x/1/workspace'
    track = pkg and not reloc
    if (v[(b'F1', A)] != v[(b'F2', A)]) != fp:
        return False, 'fingerprint-output'
    if (v[(b'F1', A)] != v[(b'F1', B)]) != track:
        return False, 'relocation-tag'
    if not fp and not track and v[(b'F1', A)] != b'':
        return False, 'constant'
    return True, 'ok'


def check_fp(fingerprinted: bool, relocatable: bool, pkgstep: bool) -> bool:
    """
    post: _
    """
    V.enter()
    f, r, p = bool(fingerprinted), bool(relocatable), bool(pkgstep)
    with V.fast():
        ok, fact = scenario(f, r, p)
    return V.verdict(ok, fact)


def PLAN(tier):
    return [dict(fn='check_fp', shard=[0], timeout=120)]

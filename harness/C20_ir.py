"""C20 (fidelity part) -- the job specification embedded in a Jenkins job reproduces the project's steps.

Real code executed: bob.input (parse, generatePackages) on a generated project with tools,
sandbox, multiPackage variants and hostile variable values; for the package step of EVERY
package: bob.cmds.jenkins.intermediate.PartialIR.add -> toData -> json text -> fromData ->
getRoots, StepIR / PackageIR / ToolIR / SandboxIR accessors and StepIR.getDigestCoro on the
reconstructed steps; plus the real JobNameCalculator / _genJenkinsJobs /
genJenkinsBuildOrder on the REAL packages (the stub-package harness C20_jenkins.py covers
the combinatorics, this one the real objects).
Symbolic: project feature bits.
Oracle: for every step reachable from the reconstructed root inside its own package, and
for every (partial) dependency: Variant-Id, validity, kind, digest script, scripts, environment,
tool (name, path, libs, providing step), arguments in order, sandbox, determinism flags equal the
project's step; the Variant-Id / Build-Id computed by getDigestCoro on the reconstruction (with the
same source hashes) equal those computed on the project's steps.
"""
import asyncio
import json
import os
import sys
from lib import V
sys.path.insert(0, V.REPO + '/pym')

from harness import C04_caches as G
import bob.cmds.jenkins.jenkins as JJ
import bob.cmds.jenkins.intermediate as JI
import bob.cmds.build.build as CB
from bob.input import RecipeSet
from bob.errors import ParseError

NO_SOLVER_TIMEOUT = True
ENCODED = ['bob.cmds.jenkins.intermediate.PartialIR.add', 'bob.cmds.jenkins.intermediate.PartialIR.addStep',
           'bob.cmds.jenkins.intermediate.PartialIR.toData', 'bob.cmds.jenkins.intermediate.PartialIR.fromData',
           'bob.cmds.jenkins.intermediate.PartialIR.getRoots', 'bob.intermediate.StepIR.fromStep', 'bob.intermediate.StepIR.getDigestCoro',
           'bob.intermediate.PackageIR.fromPackage', 'bob.intermediate.ToolIR.fromTool', 'bob.intermediate.SandboxIR.fromSandbox',
           'bob.cmds.jenkins.jenkins.JobNameCalculator.addPackage', 'bob.cmds.jenkins.jenkins._genJenkinsJobs',
           'bob.cmds.jenkins.jenkins.genJenkinsBuildOrder']
STUBS = ['source hashes of checkout steps = sha1(Variant-Id) on both sides']
ASSUMPTIONS = []
BOUNDS = 'generated project: app -> {sandbox provider, tool provider, lib-a, lib-b (multiPackage), mid -> lib-a}; 8 feature bits'


def write(root, bits):
    sbx, toolweak, libb, libdep, hostile, fp, midtool, chk = bits
    os.makedirs(os.path.join(root, 'recipes'), exist_ok=True)
    with open(os.path.join(root, 'config.yaml'), 'w') as f:
        f.write('bobMinimumVersion: "0.25"\n')

    def rec(name, text):
        with open(os.path.join(root, 'recipes', name + '.yaml'), 'w') as f:
            f.write(text)
    rec('sb', 'packageScript: "sb"\nprovideSandbox:\n  paths: ["/bin", "/usr/bin"]\n  mount: ["/etc"]\n')
    rec('tc', 'packageScript: "tc"\nprovideTools:\n  cc:\n    path: bin\n    libs: [lib, lib64]\n  ar: bin2\n' +
        ('fingerprintScript: "echo tc"\n' if fp else ''))
    val = '"a b \\\\$x \\\\\' \\\\\\" ü"' if hostile else '"v"'
    rec('lib', 'multiPackage:\n  a:\n    environment: {K: %s}\n    packageVars: [K]\n    packageScript: "lib-a $K"\n' % val +
        '    ' + ('packageToolsWeak' if toolweak else 'packageTools') + ': [cc]\n' +
        ('    depends: [lib-b]\n    buildScript: "use $2"\n' if libdep else '') +
        '  b:\n    buildTools: [ar]\n    buildScript: "lib-b-build"\n    packageScript: "lib-b"\n' +
        ('checkoutDeterministic: True\ncheckoutScript: "lib-src"\n' if chk else ''))
    rec('mid', 'depends: [lib-a]\nbuildScript: "mid $2"\npackageScript: "mid"\n' + ('buildTools: [cc]\n' if midtool else ''))
    deps = '  - name: tc\n    use: [tools]\n    forward: True\n'
    if libb:
        deps += '  - lib-b\n'          # before the sandbox is declared: this lib-b is built outside the sandbox
    if sbx:
        deps += '  - name: sb\n    use: [sandbox]\n    forward: True\n'
    deps += '  - lib-a\n  - mid\n'
    rec('app', 'root: True\ndepends:\n' + deps + 'checkoutDeterministic: True\ncheckoutScript: "app-src"\nbuildScript: "app $@"\n'
        'packageScript: "app-pkg"\nbuildTools: [cc]\n')


def src_hash(vid):
    import hashlib
    return hashlib.sha1(b'src' + vid).digest()


async def abuild_id(step, memo, transfer=None):
    key = step.getVariantId() + bytes([step.isCheckoutStep(), step.isBuildStep()])
    if key in memo:
        return memo[key]
    if transfer is not None and step.partial:
        return transfer[key]          # results of other jobs arrive with their .buildid file
    if step.isCheckoutStep():
        memo[key] = src_hash(step.getVariantId())
        return memo[key]

    async def calc(steps):
        return [await abuild_id(s, memo, transfer) for s in steps]
    r = await step.getDigestCoro(calc, fingerprint=b'FP' if step._isFingerprinted() else b'', platform=b'linux', relaxTools=True)
    memo[key] = r
    return r


def build_id(step, memo, loop, transfer=None):
    """Build-Id by the step's own getDigestCoro; checkout steps get a source hash derived from their Variant-Id"""
    return loop.run_until_complete(abuild_id(step, memo, transfer))


def sbx_of(step):
    sb = step.getSandbox()
    return None if sb is None else sb.getStep().getVariantId()


def own_vid(step):
    """identity of a step for the job graph: Variant-Id plus the sandbox it is built in (independent of the code under test)"""
    return step.getVariantId() + (sbx_of(step) or b'')


def facts(step):
    """what the build node needs to know about a fully described step"""
    sb = step.getSandbox()
    return {
        'vid': step.getVariantId(), 'valid': step.isValid(),
        'kind': (step.isCheckoutStep(), step.isBuildStep(), step.isPackageStep()),
        'digestScript': step.getDigestScript(), 'setup': step.getSetupScript(), 'main': step.getMainScript(),
        'update': step.getUpdateScript(), 'env': dict(step.getEnv()), 'det': step.isDeterministic(),
        'fp': step._getFingerprintScript(), 'label': step.getLabel(), 'net': step.hasNetAccess(),
        'ws': step.getWorkspacePath(), 'reloc': step.isRelocatable(),
        'tools': sorted((n, t.getPath(), tuple(t.getLibs()), t.getStep().getVariantId()) for n, t in step.getTools().items()),
        'args': [a.getVariantId() for a in step.getArguments()],
        'alldeps': [a.getVariantId() for a in step.getAllDepSteps()],
        'sandbox': None if sb is None else (sb.getStep().getVariantId(), list(sb.getPaths()), json.loads(json.dumps(sb.getMounts()))),
        'package': step.getPackage().getName(), 'stack': list(step.getPackage().getStack()),
        'recipe': step.getPackage().getRecipe().getName(),
        'metaenv': dict(step.getPackage().getMetaEnv()),
    }


def scenario(bits, sandbox):
    G.install()
    import io
    import contextlib
    cwd = os.getcwd()
    buf = io.StringIO()
    loop = asyncio.new_event_loop()
    try:
        with contextlib.redirect_stderr(buf), contextlib.redirect_stdout(buf):
            proj = G.fresh('proj')
            write(proj, bits)
            os.chdir(proj)
            rs = RecipeSet()
            rs.defineHook('releaseNameFormatter', lambda s, m: 'work/' + s.getPackage().getName() + '/' + s.getLabel())
            rs.defineHook('developNameFormatter', lambda s, m: 'dev/' + s.getPackage().getName() + '/' + s.getLabel())
            rs.parse({})
            packages = rs.generatePackages(lambda s, m: 'work/' + s.getPackage().getName().replace('-', '_') + '/' + s.getLabel(), sandbox)
            try:
                root = packages.getRootPackage().getDirectDepSteps()[0].getPackage()       # app
                # every package of the project
                todo, seen, pkgs = [root], set(), []
                while todo:
                    p = todo.pop()
                    k = '/'.join(p.getStack())
                    if k in seen:
                        continue
                    seen.add(k)
                    pkgs.append(p)
                    for d in list(p.getDirectDepSteps()) + list(p.getIndirectDepSteps()):
                        todo.append(d.getPackage())
                    for s in (p.getCheckoutStep(), p.getBuildStep(), p.getPackageStep()):
                        if s.isValid():
                            for t in s.getTools().values():
                                todo.append(t.getStep().getPackage())
                            if s.getSandbox() is not None:
                                todo.append(s.getSandbox().getStep().getPackage())
                memo_real = {}
                for p in pkgs:
                    ps = p.getPackageStep()
                    ir = JI.PartialIR()
                    ir.add(ps)
                    text = json.dumps(ir.toData())
                    ir2 = JI.PartialIR.fromData(json.loads(text))
                    roots = ir2.getRoots()
                    if len(roots) != 1:
                        return False, 'roots'
                    # walk the steps of this package on both sides
                    pairs = [(ps, roots[0])]
                    done = set()
                    memo_ir = {}
                    while pairs:
                        a, b = pairs.pop()
                        if a.getVariantId() in done:
                            continue
                        done.add(a.getVariantId())
                        if b.getVariantId() != a.getVariantId():
                            return False, 'variant-id'
                        if a.getPackage() is not p and a.getPackage().getName() != p.getName():
                            # a dependency: only partially described (ids, workspace, package) -- its result is transferred
                            if (b.isValid(), b.getWorkspacePath(), b.getPackage().getName(), sbx_of(b)) != \
                                    (a.isValid(), a.getWorkspacePath(), a.getPackage().getName(), sbx_of(a)):
                                return False, 'partial-step'
                            continue
                        if a.isValid():
                            fa, fb = facts(a), facts(b)
                            if fa != fb:
                                bad = sorted(k for k in fa if fa[k] != fb[k])
                                if os.environ.get('W_DEBUG'):
                                    print('DIFF', [(k, fa[k], fb[k]) for k in bad], file=sys.__stderr__)
                                return False, 'step-differs:' + ','.join(bad)
                            # the id a local `bob build` computes for this step (its executable representation) vs. the build node's
                            if build_id(CB.ExecutableStep.fromStep(a, CB.LazyIR), memo_real, loop) != build_id(b, memo_ir, loop, memo_real):
                                return False, 'build-id'
                            for x, y in zip(a.getAllDepSteps(), b.getAllDepSteps()):
                                pairs.append((x, y))
                # ---- job graph over the real packages
                calc = JJ.JobNameCalculator('pfx-')
                calc.addPackage(root)
                calc.sanitize()
                jobs = {}
                JJ._genJenkinsJobs(root.getPackageStep(), jobs, calc, False, False, set(), set(), False)
                try:
                    order = JJ.genJenkinsBuildOrder(jobs)
                except ParseError:
                    return False, 'cyclic'
                pos = {n: i for i, n in enumerate(order)}
                vid = own_vid
                built = {}
                for name, job in jobs.items():
                    for up in job.getUpstreamJobs():
                        if up not in jobs or pos[up] >= pos[name]:
                            return False, 'order-not-topological'
                    for s in job.getPackageSteps():
                        built.setdefault(vid(s), set()).add(name)
                # every package step the root needs (arguments, tools, sandbox, transitively) is built by exactly one job
                todo, seen = [root.getPackageStep()], set()
                while todo:
                    st = todo.pop()
                    if id(st) in seen or not st.isValid():
                        continue
                    seen.add(id(st))
                    if st.isPackageStep() and len(built.get(vid(st), ())) != 1:
                        return False, 'package-built-by-%d-jobs' % len(built.get(vid(st), ()))
                    todo.extend(st.getAllDepSteps())
            finally:
                packages.close()
                for n in G._nodes:
                    try:
                        n.close()
                    except Exception:
                        pass
                G._nodes[:] = []
        return True, 'ok'
    finally:
        loop.close()
        os.chdir(cwd)


def check_ir(sbx: bool, toolweak: bool, libb: bool, libdep: bool, hostile: bool, fp: bool, midtool: bool, chk: bool,
             sandbox: bool) -> bool:
    """
    pre: sbx == bool(V.SHARD[0] & 1) and toolweak == bool(V.SHARD[0] & 2) and libb == bool(V.SHARD[0] & 4)
    post: _
    """
    V.enter()
    bits = [bool(b) for b in (sbx, toolweak, libb, libdep, hostile, fp, midtool, chk)]
    sb = bool(sandbox)
    with V.fast():
        ok, fact = scenario(bits, sb)
    return V.verdict(ok, fact)


def PLAN(tier):
    return [dict(fn='check_ir', shard=[k], timeout=900) for k in range(8)]

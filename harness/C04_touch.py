"""C04 (memo kernel) -- touch tracking is sound: a computation depends only on what it touched.

Real code executed symbolically: bob.stringparser.Env (touchReset / touchedKeys / __getitem__ /
get / __contains__), Env.substitute -> StringParser and the string functions, with the
tools Env passed as `__tools` exactly as Recipe.prepare does.
Property (non-interference): for EVERY string `text` and every two environments /
tool sets: run substitute(text) on (env1, tools1) after touchReset(); if (env2, tools2)
agrees with (env1, tools1) on every key reported by touchedKeys() -- presence and
value -- then substitute(text) on (env2, tools2) gives the identical outcome (value or
ParseError).  This is exactly what PackageMatcher relies on when it re-uses a package
for inputs that agree on the touched keys.
"""
import sys
from lib import V
sys.path.insert(0, V.REPO + '/pym')

import bob.stringparser as SP
from bob.errors import ParseError

ENCODED = ['bob.stringparser.Env.touchReset', 'bob.stringparser.Env.touchedKeys', 'bob.stringparser.Env.__getitem__',
           'bob.stringparser.Env.get', 'bob.stringparser.Env.__contains__', 'bob.stringparser.Env.substitute',
           'bob.stringparser.StringParser.parse', 'bob.stringparser.StringParser.getVariable',
           'bob.stringparser.StringParser.getBareVariable', 'bob.stringparser.StringParser.getCommand',
           'bob.stringparser.funToolDefined', 'bob.stringparser.funToolEnv', 'bob.stringparser.funIfThenElse']
STUBS = ['string functions match/matchScm removed from the function table (regex on symbolic strings)',
         'tools are stub objects with an `environment` dictionary']
ASSUMPTIONS = []
BOUNDS = ('text: every Unicode string up to the shard length; variable a unset / empty / set, variable B unset / set, tool t present / absent; second world = first world with one of them changed, '
          'values of a symbolic (<= 2 characters)')

FUNS = dict(SP.DEFAULT_STRING_FUNS)
for _f in ('match', 'matchScm'):
    FUNS.pop(_f, None)


class _Tool:
    def __init__(self, environment):
        self.environment = environment


def cls(c):
    if c == '$': return 0
    if c == '"': return 1
    if c == "'": return 2
    if c == '\\': return 3
    return 4


def mk(a_state, a_val, b_state, tool):
    d = {}
    if a_state == 1:
        d['a'] = ''
    elif a_state == 2:
        d['a'] = a_val
    if b_state == 1:
        d['B'] = ''
    elif b_state == 2:
        d['B'] = 'x'
    t = {'t': _Tool({'v': 'tv'})} if tool else {}
    return d, t


def run(text, envd, toolsd, nounset):
    env = SP.Env(envd)
    tools = SP.Env(toolsd)
    env.setFuns(FUNS)
    env.setFunArgs({'sandbox': False, '__tools': tools})
    env.touchReset()
    tools.touchReset()
    try:
        r = ('val', env.substitute(text, 'prop', nounset))
    except ParseError:
        r = ('err',)
    except Exception as e:
        r = ('internal', type(e).__name__)
    return r, set(env.touchedKeys()), set(tools.touchedKeys())


def check_touch(text: str, a1: int, av1: str, b1: bool, t1: bool, delta: int, av2: str, nounset: bool) -> bool:
    """
    pre: len(text) == V.SHARD[0]
    pre: V.SHARD[0] == 0 or cls(text[0]) == V.SHARD[1]
    pre: 0 <= a1 <= 2 and 0 <= delta <= 4
    pre: len(av1) <= 2 and len(av2) <= 2
    post: _
    """
    V.enter()
    return body(text, a1, av1, b1, t1, delta, av2, nounset)


def body(text, a1, av1, b1, t1, delta, av2, nounset):
    """world 2 = world 1 with ONE input changed (delta 0/1: a moves to one of its two other states, 2: the value of a changes,
    3: B appears/disappears, 4: tool t appears/disappears).  If that input was not touched by the run in world 1, the run in
    world 2 must give the same outcome AND the same touched sets (this makes single changes compose to arbitrary ones)."""
    a2, b2, t2 = a1, b1, t1
    if delta <= 1:
        a2 = (a1 + 1 + delta) % 3
        changed = 'a'
    elif delta == 2:
        if a1 != 2 or av1 == av2:
            return V.verdict(True, 'no-change')
        changed = 'a'
    elif delta == 3:
        b2 = not b1
        changed = 'B'
    else:
        t2 = not t1
        changed = 't'
    e1, tl1 = mk(a1, av1, 2 if b1 else 0, t1)
    e2, tl2 = mk(a2, av2 if (delta == 2 or a1 != 2) else av1, 2 if b2 else 0, t2)
    r1, touched, ttouched = run(text, e1, tl1, nounset)
    if (changed in touched) if changed != 't' else ('t' in ttouched):
        return V.verdict(True, 'changed-input-was-touched')
    r2, touched2, ttouched2 = run(text, e2, tl2, nounset)
    ok = r1 == r2 and touched == touched2 and ttouched == ttouched2
    return V.verdict(ok, r1[0], r2[0])


TEMPLATES = ['${%s}', '${%s-%s}', '${%s:-%s}', '${%s+%s}', '${%s:+%s}', '$%s %s', '$(is-tool-defined,%s)', '$(get-tool-env,%s,%s)',
             '$(get-tool-env,%s,v,${%s})', '$(if-then-else,%s,${a},${B})', '$(if-then-else,${a:-},%s,${%s})', '$(eq,${%s},%s)',
             '${a:-${%s}}', '${a:+${%s}}', '"${%s}"', "'${%s}'${B}", '$(or,${a:-0},${%s})', '$(and,${a:-0},${%s:-%s})']


def fill(k, x, y):
    parts = TEMPLATES[k].split('%s')
    if len(parts) == 2:
        return parts[0] + x + parts[1]
    return parts[0] + x + parts[1] + y + parts[2]


def check_touch_tmpl(x: str, y: str, a1: int, av1: str, b1: bool, t1: bool, delta: int, av2: str, nounset: bool) -> bool:
    """
    pre: len(x) <= V.SHARD[1] and len(y) <= V.SHARD[2]
    pre: V.SHARD[2] > 0 or nounset
    pre: V.SHARD[3] < 0 or delta == V.SHARD[3]
    pre: 0 <= a1 <= 2 and 0 <= delta <= 4
    pre: len(av1) <= 1 and len(av2) <= 1
    post: _
    """
    V.enter()
    k = V.SHARD[0]
    if TEMPLATES[k].count('%s') == 1:
        y = ''
    elif V.SHARD[2] == 0:
        y = 'B'
    return body(fill(k, x, y), a1, av1, b1, t1, delta, av2, nounset)


def PLAN(tier):
    P = _plan(tier)
    P.sort(key=lambda c: c['fn'] != 'check_touch_tmpl')       # the long conditions first
    return P


def _plan(tier):
    q = tier == 'quick'
    P = [dict(fn='check_touch', shard=[0, 0], timeout=120)]
    top = 3 if q else 5
    for n in range(1, top + 1):
        for c in range(5):
            if q and n == 3 and c in (0, 1, 4):
                continue         # (quick: length 3 only for the classes that reach variables / escapes; all classes in thorough)
            P.append(dict(fn='check_touch', shard=[n, c], timeout=600 if q else 3000))
    for k in range(len(TEMPLATES)):
        if q and k not in (0, 2, 3, 6, 15):
            continue          # (each skeleton costs ~5 CPU minutes, the long ones > 10: all of them in thorough only)
        for dl in range(5):
            P.append(dict(fn='check_touch_tmpl', shard=[k, 1, 0, dl] if q else [k, 2, 1, dl], timeout=600 if q else 3000))
    return P

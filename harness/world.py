"""World harness (C01, C05): real `bob dev` / `bob build` invocations executed IN PROCESS on
a scratch project -- real RecipeSet parsing, real package graph and ids, real
DevelopDirOracle / _BobState persistence, real LocalBuilder.cook orchestration and
_cook*Step logic, real StepSpec/Invoker.executeStep workspace preparation, real directory
hashing and audit generation.  Only the spawn of the script interpreter
(Invoker.__runCommand) is replaced: a step "script" deterministically writes
out.txt = H(script, declared environment, content of its arguments) -- the statement's
assumption of deterministic scripts -- and records which scripts ran in a workspace since
it was last emptied.

Symbolic: the EDIT HISTORY (which recipe / class / variable / dependency edit precedes
each invocation), build mode, and the ABORT PLAN (which step of which invocation fails
after partial output or is killed, or at which persistent-state save the process is
killed).
Oracle: the same real code building the final project state in an empty directory.
"""
import asyncio
import concurrent.futures
import glob
import hashlib
import io
import contextlib
import os
import shutil
import sys
import tempfile
from lib import V
sys.path.insert(0, V.REPO + '/pym')

import bob.builder as BB
import bob.state as BS
import bob.invoker as BI
import bob.pathspec as PS
import bob.cmds.build.build as CB
import bob.cmds.build.state as ST
import bob.cmds.build.clean as CC
from bob.errors import BobError

NO_SOLVER_TIMEOUT = True
ENCODED = ['bob.cmds.build.build.commonBuildDevelop', 'bob.builder.LocalBuilder.cook', 'bob.builder.LocalBuilder._cook',
           'bob.builder.LocalBuilder._cookStep', 'bob.builder.LocalBuilder._cookCheckoutStep',
           'bob.builder.LocalBuilder._cookBuildStep', 'bob.builder.LocalBuilder._preparePackageStep',
           'bob.builder.LocalBuilder._cookPackageStep', 'bob.builder.LocalBuilder.__getIncrementalVariantId',
           'bob.builder.LocalBuilder._constructDir', 'bob.builder.LocalBuilder._runShell',
           'bob.builder.LocalBuilder._generateAudit', 'bob.builder.LocalBuilder._getBuildId',
           'bob.invoker.Invoker.executeStep', 'bob.languages.StepSpec.fromStep', 'bob.state._BobState.__save',
           'bob.cmds.build.state.DevelopDirOracle.prime', 'bob.input.RecipeSet.parse', 'bob.input.Recipe.prepare',
           'bob.utils.DirHasher.hashDirectory']
STUBS = ['Invoker.__runCommand (interpreter spawn) -> deterministic script model writing out.txt / residue.txt',
         'EventLoopWrapper without process pool; tty output discarded; sqlite handles of a finished invocation closed',
         'a killed process: BaseException raised at the kill point, every later state save of that invocation is suppressed']
ASSUMPTIONS = ['step scripts are deterministic functions of script text, declared environment and inputs (statement)',
               'the user removes the stale lock of a killed instance (statement)']
BOUNDS = ('project: app -> {lib, mid -> lib(re-parameterised)} (+ class inherited by lib, a variable declared strong in the recipe and weak in the class); edit history of <= 3 (quick 2) edits out of 11 kinds, each followed by a build; '
          'develop and release mode; abort plan: one (thorough: two) aborted invocation(s): script failure / kill in any step, or kill '
          'before any of the first 40 state saves')


class Crash(BaseException):
    pass


class World:
    cur = None

    def __init__(self, root):
        self.root = root
        self.execs = []            # (package/label, scriptName) of this invocation
        self.fault = None          # ('fail'|'kill', label-key) or ('save', n)
        self.saves = 0
        self.crashed = False


# --------------------------------------------------------------- project ----
EDITS = 13


def initial():
    return {'lib_build': 0, 'lib_pkg': 0, 'app_build': 0, 'mode': 0, 'dep': True, 'cls': 0, 'libsrc': 0,
            'weak': 0, 'appvars': False, 'libpkgvar': False, 'x': 0, 'midsame': False, 'srcedit': 0}


def apply_edit(st, e):
    st = dict(st)
    if e == 1: st['app_build'] ^= 1
    elif e == 2: st['lib_build'] ^= 1
    elif e == 3: st['mode'] ^= 1
    elif e == 4: st['lib_pkg'] ^= 1
    elif e == 5: st['appvars'] = not st['appvars']
    elif e == 6: st['libsrc'] ^= 1
    elif e == 7: st['cls'] ^= 1
    elif e == 8: st['dep'] = not st['dep']
    elif e == 9: st['weak'] ^= 1
    elif e == 10: st['x'] ^= 1
    elif e == 11: st['srcedit'] = st.get('srcedit', 0) + 1      # the user adds a file to the source workspace of lib
    elif e == 12: st['srcmod'] = st.get('srcmod', 0) + 1        # the user modifies a file the checkout script of lib wrote
    return st


def write_project(root, st):
    os.makedirs(os.path.join(root, 'recipes'), exist_ok=True)
    os.makedirs(os.path.join(root, 'classes'), exist_ok=True)
    with open(os.path.join(root, 'config.yaml'), 'w') as f:
        f.write('bobMinimumVersion: "0.25"\n')
    dflt = os.path.join(root, 'default.yaml')
    if st.get('archive'):
        with open(dflt, 'w') as f:
            f.write('archive:\n  backend: file\n  path: "%s"\n' % st['archive'])
    elif os.path.exists(dflt):
        os.unlink(dflt)
    with open(os.path.join(root, 'classes', 'common.yaml'), 'w') as f:
        f.write('buildScript: "class-build-%d"\nbuildVarsWeak: [W, MODE]\n' % st['cls'])
    with open(os.path.join(root, 'recipes', 'lib.yaml'), 'w') as f:
        f.write('inherit: [common]\ncheckoutDeterministic: True\ncheckoutScript: "lib-src-%d"\n'
                'buildScript: "lib-build-%d"\npackageScript: "lib-pkg-%d"\n' % (st['libsrc'], st['lib_build'], st['lib_pkg']))
        f.write('buildVars: [MODE]\n')
    with open(os.path.join(root, 'recipes', 'app.yaml'), 'w') as f:
        f.write('root: True\n')
        f.write('depends: [%s]\n' % ', '.join((['lib'] if st['dep'] else []) + ['mid']))
        f.write('checkoutDeterministic: True\ncheckoutScript: "app-src"\nbuildScript: "app-build-%d"\npackageScript: "app-pkg"\n'
                % st['app_build'])
        if st['appvars']:
            f.write('buildVars: [X]\n')


    with open(os.path.join(root, 'recipes', 'mid.yaml'), 'w') as f:
        # a second consumer of lib that re-parameterises it: a second variant of lib
        if st.get('midsame'):
            f.write('depends: [lib]\n')
        else:
            f.write('depends:\n  - name: lib\n    environment:\n      MODE: "mid"\n')
        f.write('buildScript: "mid-build"\npackageScript: "mid-pkg"\n')


    with open(os.path.join(root, 'recipes', 'solo.yaml'), 'w') as f:
        f.write('root: True\nbuildScript: "solo-build"\npackageScript: "solo-pkg"\n')


def defines(st):
    return ['-DMODE=m%d' % st['mode'], '-DW=w%d' % st['weak'], '-DX=x%d' % st['x']]


# ------------------------------------------------------------ script model ----
class Finished:
    def __init__(self, rc):
        self.returncode = rc
        self.stdout = ''
        self.stderr = ''


def dir_content(path):
    """every entry below path: regular files with content and permission bits, symbolic links with their text,
    directories (also empty ones) with permission bits"""
    out = {}
    for d, ds, fs in os.walk(path):
        for f in fs + ds:
            p = os.path.join(d, f)
            rel = os.path.relpath(p, path)
            try:
                st = os.lstat(p)
                if os.path.islink(p):
                    out[rel] = ('link', os.readlink(p))
                elif os.path.isdir(p):
                    out[rel] = ('dir', st.st_mode & 0o777)
                elif f in ('out.txt', 'residue.txt', 'partial.txt'):
                    out[rel] = open(p, 'rb').read()
                else:
                    out[rel] = ('file', st.st_mode & 0o777, open(p, 'rb').read())
            except OSError:
                out[rel] = None
    return out


HOSTILE_NAMES = ['sp ace', 'uml\u00e4ut-\u2713', '$(x);`y`\'"q', '-dash', 'n' * 120, 'dot.', '.hidden']


def hostile_tree(ws, bits):
    """a package result with everything the statement of C08 lists (bits select the features)"""
    if bits & 1:
        os.makedirs(os.path.join(ws, 'empty-dir'), exist_ok=True)
        os.makedirs(os.path.join(ws, 'deep', 'er', 'empty'), exist_ok=True)
    if bits & 2:
        for n in HOSTILE_NAMES:
            with open(os.path.join(ws, n), 'w') as f:
                f.write('content of ' + n)
        os.makedirs(os.path.join(ws, 'd ' + HOSTILE_NAMES[1]), exist_ok=True)
        with open(os.path.join(ws, 'd ' + HOSTILE_NAMES[1], HOSTILE_NAMES[2]), 'w') as f:
            f.write('nested')
    if bits & 4:
        os.symlink('out.txt', os.path.join(ws, 'rel-link'))
        os.symlink('/nonexistent/abs', os.path.join(ws, 'abs-dangling-link'))
        os.symlink('../../outside', os.path.join(ws, 'up-link'))
        os.symlink('.', os.path.join(ws, 'dir-link'))
    if bits & 8:
        with open(os.path.join(ws, 'hl-a'), 'w') as f:
            f.write('hard linked')
        os.link(os.path.join(ws, 'hl-a'), os.path.join(ws, 'hl-b'))
    if bits & 16:
        for n, m in (('exec', 0o755), ('readonly', 0o444), ('private', 0o600), ('wide', 0o666)):
            with open(os.path.join(ws, n), 'w') as f:
                f.write(n)
            os.chmod(os.path.join(ws, n), m)
        os.makedirs(os.path.join(ws, 'dir700'), exist_ok=True)
        os.chmod(os.path.join(ws, 'dir700'), 0o700)
    if bits & 32:
        with open(os.path.join(ws, 'empty-file'), 'w'):
            pass
        with open(os.path.join(ws, 'binary'), 'wb') as f:
            f.write(bytes(range(256)) * 40)


def read_out(path):
    try:
        with open(os.path.join(path, 'out.txt')) as f:
            r = f.read()
    except OSError:
        return '<missing>'
    try:
        with open(os.path.join(path, 'user.txt')) as f:        # a file the user added to a source workspace
            r += f.read()
    except OSError:
        pass
    return r


def lib_sources(root):
    return glob.glob(os.path.join(root, 'dev', 'src', 'lib', '*', 'workspace')) + \
        glob.glob(os.path.join(root, 'work', 'lib', 'src', '*', 'workspace'))


def user_edit(w, st, release, n):
    """the user edits the lib sources NOW: a file is added to every lib source workspace that exists (after checking the
    sources out first if there are none yet -- as a user would)"""
    if not lib_sources(w.root):
        o = invoke(w, st, release, ['-B'])
        if o[0] != 'ok':
            raise V.HarnessGap('checkout-only pass failed')
    for ws in lib_sources(w.root):
        with open(os.path.join(ws, 'user.txt'), 'w') as f:
            f.write('user edit %d\n' % n)


def current_user_txt(w):
    """what the user's file holds in the lib source workspace the last invocation worked with (None: no such file)"""
    for key, ws in getattr(w, 'visited', []):
        if key == 'lib/src':
            try:
                with open(os.path.join(w.root, ws, 'user.txt')) as f:
                    return f.read()
            except OSError:
                return None
    return None


async def fake_run(self, args, cwd, stdout=None, stderr=None, check=False, **kw):
    w = World.cur
    spec = self._Invoker__spec
    ws = spec.workspaceWorkspacePath
    parts = ws.split(os.sep)
    label = parts[1] if ws.startswith('dev') else parts[2]
    pkg = parts[2] if ws.startswith('dev') else parts[1]
    key = '%s/%s' % (pkg, {'src': 'src', 'build': 'build', 'dist': 'dist'}.get(label, label))
    w.execs.append(key)
    if w.crashed:
        raise Crash()
    for _ in range(getattr(w, 'delays', {}).get(key, 0)):
        await asyncio.sleep(0)             # the script takes a while: other tasks of a parallel build run meanwhile
    h = hashlib.sha1()
    # weakly declared variables (W) are visible but by contract never influence a result
    h.update(repr((spec.setupScript, spec.mainScript, sorted((k, v) for k, v in spec.env.items() if k != 'W'))).encode())
    for a in spec.args:
        h.update(read_out(a).encode())
    if w.fault and w.fault[0] in ('fail', 'kill', 'sig') and w.fault[1] == key:
        with open(os.path.join(ws, 'partial.txt'), 'w') as f:
            f.write('half written output')
        if w.fault[0] == 'kill':
            w.crashed = True
            raise Crash()
        rc = 1 if w.fault[0] == 'fail' else -9          # sig: the interpreter was killed by a signal (OOM killer, ...), Bob lives on
        w.fault = None
        if check:
            raise BI.CmdFailedError('script', rc)
        return Finished(rc)
    sd = hashlib.sha1(repr((spec.setupScript, spec.mainScript)).encode()).hexdigest()
    res = os.path.join(ws, 'residue.txt')
    old = set()
    if os.path.exists(res):
        old = set(open(res).read().split())
    old.add(sd)
    with open(res, 'w') as f:
        f.write('\n'.join(sorted(old)))
    with open(os.path.join(ws, 'out.txt'), 'w') as f:
        f.write(h.hexdigest())
    if getattr(w, 'hostile', 0) and key == 'lib/dist':
        hostile_tree(ws, w.hostile)
    if spec.envFile:
        with open(spec.envFile, 'w') as f:       # the real script prolog dumps its environment there
            f.write(repr(sorted(spec.env.items())))
    p = os.path.join(ws, 'partial.txt')
    if os.path.exists(p) and False:
        os.unlink(p)
    return Finished(0)


class SyncExecutor(concurrent.futures.Executor):
    """stands in for the process pool: the archive helpers run at once in the calling (main) thread"""

    def submit(self, fn, *args, **kwargs):
        f = concurrent.futures.Future()
        try:
            f.set_result(fn(*args, **kwargs))
        except Exception as e:
            f.set_exception(e)
        return f


class ELW:
    def __enter__(self):
        self.loop = asyncio.new_event_loop()
        asyncio.set_event_loop(self.loop)
        return (self.loop, SyncExecutor())

    def __exit__(self, *a):
        try:
            self.loop.close()
        except Exception:
            pass
        return False


_made = []
_nodes = []
_steps = []
_installed = []


def install():
    if _installed:
        return
    _installed.append(1)
    BI.Invoker._Invoker__runCommand = fake_run
    CB.EventLoopWrapper = ELW

    class Tracked(ST.DevelopDirOracle):
        def __init__(self, *a, **k):
            super().__init__(*a, **k)
            _made.append(self)
    CB.DevelopDirOracle = Tracked
    CC.DevelopDirOracle = Tracked
    orig_init = PS.PkgGraphNode.init.__func__

    def _init(cls, *a, **k):
        n = orig_init(cls, *a, **k)
        _nodes.append(n)
        return n
    PS.PkgGraphNode.init = classmethod(_init)
    orig_cook = BB.LocalBuilder.cook

    def cook(self, steps, checkoutOnly, loop, depth=0):
        _steps.extend(steps)
        return orig_cook(self, steps, checkoutOnly, loop, depth)
    BB.LocalBuilder.cook = cook
    orig_cps = BB.LocalBuilder._cookPackageStep

    def cps(self, packageStep, *a, **k):
        if World.cur is not None:
            World.cur.cooked.add((packageStep.getPackage().getName(), packageStep.getVariantId().hex()))
        return orig_cps(self, packageStep, *a, **k)
    BB.LocalBuilder._cookPackageStep = cps
    orig_dl = BB.LocalBuilder._downloadPackage

    def dl(self, packageStep, *a, **k):
        if World.cur is not None:
            World.cur.cooked.add((packageStep.getPackage().getName(), packageStep.getVariantId().hex()))
        return orig_dl(self, packageStep, *a, **k)
    BB.LocalBuilder._downloadPackage = dl
    import bob.archive as BAR
    orig_odf = BAR.LocalArchive._openDownloadFile

    def odf(self, buildId, suffix):
        if World.cur is not None:
            World.cur.opened.append(self._getPath(buildId, suffix)[1])
        return orig_odf(self, buildId, suffix)
    BAR.LocalArchive._openDownloadFile = odf
    import bob.audit as BAU
    orig_asave = BAU.Audit.save

    def asave(self, file):
        w = World.cur
        if w is not None and w.fault and w.fault[0] == 'audit':
            w.audits = getattr(w, 'audits', 0) + 1
            if w.audits == w.fault[1]:
                w.fault = None
                from bob.errors import BuildError
                raise BuildError('Cannot write audit: [Errno 28] No space left on device')
        return orig_asave(self, file)
    BAU.Audit.save = asave
    orig_save = BS._BobState._BobState__save

    def save(self):
        w = World.cur
        if w is not None:
            if w.crashed:
                raise Crash()
            if getattr(self, '_BobState__asynchronous') == 0:
                w.saves += 1
                if w.fault and w.fault[0] == 'save' and w.saves == w.fault[1]:
                    w.crashed = True
                    raise Crash()
                if w.fault and w.fault[0] == 'aftersave' and w.saves == w.fault[1]:
                    # killed immediately AFTER this save reached the disk, before whatever the code does next
                    orig_save(self)
                    w.crashed = True
                    raise Crash()
        return orig_save(self)
    BS._BobState._BobState__save = save


def close_handles(killed):
    for o in _made:
        db = getattr(o, '_DevelopDirOracle__db', None)
        if db is not None:
            try:
                con = db.connection
                db.close()
                con.close()
            except Exception:
                pass
    _made[:] = []
    for n in _nodes:
        try:
            n.close()
        except Exception:
            pass
    _nodes[:] = []
    inst = BS._BobState.instance
    if inst is not None:
        if killed:
            c = getattr(inst, '_BobState__buildIdCache', None)
            if c is not None:
                try:
                    c.connection.close()
                except Exception:
                    pass
            BS._BobState.instance = None
            try:
                os.unlink('.bob-state.lock')      # the user removes the stale lock
            except OSError:
                pass
        else:
            BS.finalize()


def invoke(w, st, release, extra=()):
    """one Bob invocation; returns ('ok'|'error'|'killed', dist outputs {package: token}, residues)"""
    World.cur = w
    w.execs = []
    w.saves = 0
    w.crashed = False
    w.by_vid = {}
    w.paths = {}
    w.cooked = set()
    w.hostile = st.get('hostile', 0)
    w.opened = []
    os.chdir(w.root)
    write_project(w.root, st)
    argv = ['app'] + (['solo'] if st.get('solo') else []) + defines(st) + list(extra)
    outcome = 'ok'
    outs, residues = {}, {}
    visited = w.visited = []
    buf = io.TextIOWrapper(io.BytesIO(), encoding='utf8', write_through=True)
    try:
        with contextlib.redirect_stdout(buf), contextlib.redirect_stderr(buf):
            (CB.doBuild if release else CB.doDevelop)(argv, '/bobroot')
        # collect the results while the invocation's data bases are still open
        todo = list(_steps)
        seen = set()
        while todo:
            s = todo.pop()
            if not s.isValid() or s.getWorkspacePath() in seen:
                continue
            seen.add(s.getWorkspacePath())
            if s.isPackageStep():
                outs[s.getPackage().getName()] = dir_content(s.getWorkspacePath())
                w.by_vid[(s.getPackage().getName(), s.getVariantId().hex())] = outs[s.getPackage().getName()]
                w.paths[(s.getPackage().getName(), s.getVariantId().hex())] = s.getWorkspacePath()
            visited.append((s.getPackage().getName() + '/' + s.getLabel(), s.getWorkspacePath()))
            try:
                with open(os.path.join(s.getWorkspacePath(), 'residue.txt')) as f:
                    residues[s.getPackage().getName() + '/' + s.getLabel()] = len(f.read().split())
            except OSError:
                pass
            todo.extend(s.getAllDepSteps())
    except Crash:
        outcome = 'killed'
    except BobError:
        outcome = 'error'
    except SystemExit:
        outcome = 'error'
    except Exception as e:
        outcome = 'crash'             # an internal error (traceback) of Bob
        w.crash_info = type(e).__name__
    finally:
        _steps[:] = []
        close_handles(outcome == 'killed')
        World.cur = None
    return outcome, outs, residues


_SCRATCH = []


def scratch():
    if not _SCRATCH:
        import atexit
        d = tempfile.mkdtemp(prefix='world-%d-' % os.getpid(), dir='/dev/shm' if os.path.isdir('/dev/shm') else None)
        _SCRATCH.append(d)
        atexit.register(shutil.rmtree, d, True)
    return _SCRATCH[0]


def fresh(name):
    d = os.path.join(scratch(), name)
    shutil.rmtree(d, ignore_errors=True)
    os.makedirs(d)
    return d


_CLEAN = {}


class _Ref:
    pass


def clean_build(st, release, src=None):
    """from-scratch build of the project state; src = content of the user's file in the lib sources (sources are part of the
    project state, but not of the recipes).  The result is a function of its arguments: computed once per process."""
    key = (tuple(sorted((k, v) for k, v in st.items() if k != 'archive')), bool(release), src)
    if key in _CLEAN:
        clean_build.last = _CLEAN[key]
        return _CLEAN[key].outs
    w = World(fresh('clean'))
    if src is not None:
        o = invoke(w, st, release, ['-B'])
        if o[0] != 'ok':
            raise V.HarnessGap('clean checkout failed: ' + o[0])
        for ws in lib_sources(w.root):
            with open(os.path.join(ws, 'user.txt'), 'w') as f:
                f.write(src)
    o, outs, res = invoke(w, st, release)
    if o != 'ok':
        raise V.HarnessGap('clean build failed: ' + o)
    r = _Ref()
    r.outs, r.by_vid = outs, dict(w.by_vid)
    _CLEAN[key] = r
    clean_build.last = r
    return outs


def audit_check(w):
    """C14: every step workspace visited by the invocation has an audit trail whose result hash is the
    hash of the workspace content"""
    from bob.audit import Audit
    from bob.utils import hashDirectory
    for key, ws in w.visited:
        a = os.path.join(os.path.dirname(ws), 'audit.json.gz')
        if not os.path.exists(a):
            return 'no-audit-trail'
        try:
            rh = Audit.fromFile(a).getArtifact().getResultHash()
        except BobError:
            return 'unreadable-audit-trail'
        if rh != hashDirectory(ws):
            return 'audit-result-hash-differs-from-workspace'
    return None


STEP_KEYS = ['lib/src', 'lib/build', 'lib/dist', 'app/src', 'app/build', 'app/dist', 'mid/build', 'mid/dist']


def history(edits, release, fault_inv, fault_kind, fault_arg):
    """edits: list of edit kinds, one invocation after each (plus an initial one);
    fault: invocation index fault_inv (or -1) aborted by fault_kind 0 fail / 1 kill (step fault_arg) / 2 kill at save fault_arg"""
    install()
    cwd = os.getcwd()
    try:
        w = World(fresh('proj'))
        st = initial()
        seq = [0] + list(edits)
        for idx, e in enumerate(seq):
            st = apply_edit(st, e)
            if e == 11:
                user_edit(w, st, release, st['srcedit'])
            if e == 12:
                for ws in lib_sources(w.root):
                    with open(os.path.join(ws, 'out.txt'), 'a') as f:
                        f.write('scribbled by the user %d' % st['srcmod'])
            if idx == fault_inv:
                w.audits = 0
                w.fault = [('fail', STEP_KEYS[fault_arg % 8]), ('kill', STEP_KEYS[fault_arg % 8]), ('save', fault_arg + 1),
                           ('audit', fault_arg + 1), ('aftersave', fault_arg + 1), ('sig', STEP_KEYS[fault_arg % 8])][fault_kind]
                o, outs, res = invoke(w, st, release)
                w.fault = None
                if o == 'ok':
                    pass            # the fault point was not reached
                # the next invocation (same project state) must complete and be right
                o, outs, res = invoke(w, st, release)
            else:
                o, outs, res = invoke(w, st, release)
            if o != 'ok':
                return False, 'invocation-failed-' + o
            v = audit_check(w)             # (relative workspace paths: must run before the clean build changes directory)
            if v:
                return False, v
            want = clean_build(st, release, current_user_txt(w))
            if 'app' not in outs or 'out.txt' not in outs['app']:
                raise V.HarnessGap('no result of the root package found')
            if outs != want:
                return False, 'result-differs-from-clean-build'
            # (checkout workspaces are updated in place by design: no prune expected there)
            if any(n != 1 for k, n in res.items() if not k.endswith('/src')):
                return False, 'workspace-reused-without-prune'
            # an immediately repeated build executes nothing (deterministic checkouts included)
            os.chdir(w.root)
            o2, outs2, _ = invoke(w, st, release)
            if o2 != 'ok' or outs2 != want:
                return False, 'repeat-differs'
            if w.execs:
                return False, 'repeat-executed-steps'
        return True, 'ok'
    finally:
        os.chdir(cwd)


# -------------------------------------------------------------- conditions ----
def check_c01(e1: int, e2: int, e3: int, release: bool) -> bool:
    """
    pre: 0 <= e1 < EDITS and 0 <= e2 < EDITS and 0 <= e3 < EDITS
    pre: e1 == V.SHARD[0]
    pre: V.SHARD[1] >= 3 or e3 == 0
    post: _
    """
    V.enter()
    edits = [V.concretize(e1, EDITS), V.concretize(e2, EDITS)]
    if V.SHARD[1] >= 3:
        edits.append(V.concretize(e3, EDITS))
    rel = bool(release)
    with V.fast():
        ok, fact = history(edits, rel, -1, 0, 0)
    return V.verdict(ok, fact)


def check_c05(e1: int, fault_inv: int, fault_kind: int, fault_arg: int, release: bool) -> bool:
    """
    pre: 0 <= e1 < EDITS
    pre: 0 <= fault_inv <= 1
    pre: fault_kind == V.SHARD[0]
    pre: V.SHARD[1] <= fault_arg < V.SHARD[2]
    pre: release == V.SHARD[3]
    post: _
    """
    V.enter()
    e = V.concretize(e1, EDITS)
    fi = V.concretize(fault_inv, 2)
    fk = V.SHARD[0]
    fa = V.concretize(fault_arg, V.SHARD[2], V.SHARD[1])
    rel = bool(release)
    with V.fast():
        ok, fact = history([e], rel, fi, fk, fa)
    return V.verdict(ok, fact)


# dependencies between the steps of the C06 project (lib reached on two paths: app -> lib, app -> mid -> lib)
DEPS = {'lib/src': [], 'lib/build': ['lib/src'], 'lib/dist': ['lib/build'],
        'mid/build': ['lib/dist'], 'mid/dist': ['mid/build'],
        'app/src': [], 'app/build': ['app/src', 'lib/dist', 'mid/dist'], 'app/dist': ['app/build'],
        'solo/build': [], 'solo/dist': ['solo/build']}


def closure(k):
    out, todo = set(), [k]
    while todo:
        x = todo.pop()
        for a, ds in DEPS.items():
            if x in ds and a not in out:
                out.add(a)
                todo.append(a)
    return out


def orchestration(fail, jobs, keep, slow=0):
    install()
    cwd = os.getcwd()
    try:
        w = World(fresh('proj'))
        st = initial()
        st['midsame'] = True
        st['dep'] = True
        st['solo'] = True          # a second, independent root package requested after app
        extra = ['-j%d' % jobs] + (['-k'] if keep else [])
        if fail >= 0:
            w.fault = ('fail', STEP_KEYS[fail])
        if slow:
            # every script but the failing one takes some scheduler rounds (slow 1: all the same, 2: staggered)
            w.delays = {k: (4 if slow == 1 else 2 + 3 * i) for i, k in enumerate(sorted(DEPS))
                        if fail < 0 or k != STEP_KEYS[fail]}
        o, outs, res = invoke(w, st, False, extra)
        ex = list(w.execs)
        if len(ex) != len(set(ex)):
            return False, 'step-executed-twice'
        pos = {k: i for i, k in enumerate(ex)}
        for k in ex:
            for d in DEPS.get(k, []):
                if d not in pos or pos[d] > pos[k]:
                    return False, 'started-before-dependency'
        if fail < 0:
            if o != 'ok' or set(ex) != set(DEPS):
                return False, 'incomplete-build'
            return True, 'complete'
        F = STEP_KEYS[fail]
        if o != 'error':
            return False, 'failure-not-reported'
        for k in closure(F):
            if k in pos:
                return False, 'dependent-of-failed-step-executed'
        if keep:
            # the failure is confined: the independent root package is still built
            for k in ('solo/build', 'solo/dist'):
                if k not in pos:
                    return False, 'keep-going-skipped-independent-package'
        elif jobs == 1:
            if ex[-1] != F:
                return False, 'step-started-after-failure'
        return True, 'failed-as-expected'
    finally:
        os.chdir(cwd)


def check_c06(fail: int, jobs: int, keep: bool, slow: int) -> bool:
    """
    pre: -1 <= fail < 8
    pre: 1 <= jobs <= 3
    pre: 0 <= slow <= 2
    post: _
    """
    V.enter()
    f = V.concretize(fail, 8, -1)
    j = V.concretize(jobs, 4, 1)
    sl = V.concretize(slow, 3)
    k = bool(keep)
    with V.fast():
        ok, fact = orchestration(f, j, k, sl)
    return V.verdict(ok, fact)


# ---------------------------------------------------------------- C16 ----
def run_clean(w, st, args):
    World.cur = w
    os.chdir(w.root)
    write_project(w.root, st)
    buf = io.TextIOWrapper(io.BytesIO(), encoding='utf8', write_through=True)
    outcome = 'ok'
    try:
        with contextlib.redirect_stdout(buf), contextlib.redirect_stderr(buf):
            CC.doClean(list(args) + defines(st), '/bobroot')
    except BobError:
        outcome = 'error'
    except SystemExit as e:
        outcome = 'ok' if not e.code else 'error'
    finally:
        close_handles(False)
        World.cur = None
    return outcome


def listing(root):
    out = []
    for d, ds, fs in os.walk(root):
        ds[:] = [x for x in ds if not x.startswith('.bob')]
        for f in fs:
            if not f.startswith('.bob'):
                out.append(os.path.relpath(os.path.join(d, f), root))
    return sorted(out)


def clean_history(e1, rel1, rel2, kind, resume):
    """(--resume skips what the previous invocation completed unless its Variant-Id changed; source edits are by definition not
    looked at, so they are not combined with --resume here)
    build (develop or release), edit, build (develop or release), `bob clean` (kind 0: default, 1: --release, 2: -s, 3: --dry-run,
    4: --release -s): nothing that is up to date for the current recipes may be lost -- rebuilding executes nothing"""
    install()
    cwd = os.getcwd()
    try:
        w = World(fresh('proj'))
        st = initial()
        o, outs, res = invoke(w, st, rel1)
        if o != 'ok':
            raise V.HarnessGap('first build failed')
        st = apply_edit(st, e1)
        if e1 == 11:
            user_edit(w, st, rel1, st['srcedit'])
        o, outs, res = invoke(w, st, rel2, ['--resume'] if resume else [])
        if o != 'ok':
            return False, 'second-build-failed'
        want = clean_build(st, rel2, current_user_txt(w))
        if outs != want:
            return False, 'result-differs-from-clean-build'
        before = listing(w.root)
        args = [[], ['--release'], ['-s'], ['--dry-run'], ['--release', '-s']][kind]
        if run_clean(w, st, args) != 'ok':
            return False, 'clean-failed'
        if kind == 3 and listing(w.root) != before:
            return False, 'dry-run-deleted-something'
        # everything the current recipes need is still there: rebuilding executes nothing, in the mode of the last build ...
        o, outs2, res = invoke(w, st, rel2)
        if o != 'ok' or outs2 != want:
            return False, 'result-lost-by-clean'
        if [k for k in w.execs if not (k.endswith('/src') and kind in (2, 4))]:
            return False, 'clean-removed-an-up-to-date-result'
        # ... and, if nothing was edited in between, in the other mode as well
        if e1 == 0 and rel1 != rel2:
            o, outs3, res = invoke(w, st, rel1)
            if o != 'ok':
                return False, 'other-mode-broken-by-clean'
            if [k for k in w.execs if not (k.endswith('/src') and kind in (2, 4))]:
                return False, 'clean-removed-an-up-to-date-result-of-the-other-mode'
        return True, 'ok'
    finally:
        os.chdir(cwd)


def check_c16_clean(e1: int, rel1: bool, rel2: bool, kind: int, resume: bool) -> bool:
    """
    pre: 0 <= e1 < EDITS
    pre: 0 <= kind <= 4
    pre: e1 % 4 == V.SHARD[0]
    pre: not resume or e1 < 11
    post: _
    """
    V.enter()
    e = V.concretize(e1, EDITS)
    k = V.concretize(kind, 5)
    a, b, r = bool(rel1), bool(rel2), bool(resume)
    with V.fast():
        ok, fact = clean_history(e, a, b, k, r)
    return V.verdict(ok, fact)


# ---------------------------------------------------------------- C07 ----
DMODES = ['no', 'yes', 'deps', 'forced', 'forced-deps', 'forced-fallback', 'packages=lib', 'packages=^app$']
MAY_FAIL = ('forced', 'forced-deps', 'forced-fallback')      # "fail if any download fails"


def archive_history(e1, fresh2, d2, u2, e2, d3, fault, d4):
    """inv1 populates a file archive from workspace A; inv2 (after edit e1) runs in a fresh workspace B or in A with download
    mode d2 (upload u2); inv3 (same workspace, after edit e2 = nothing / e1 once more) with download mode d3, optionally aborted
    by a failing step and then repeated with download mode d4.  After every completed invocation all package results equal a
    purely local clean build of that project state."""
    install()
    cwd = os.getcwd()
    try:
        arch = fresh('archive')
        st = initial()
        st['archive'] = arch
        wa = World(fresh('projA'))
        o, outs, res = invoke(wa, st, False, ['--download=no', '--upload'])
        if o != 'ok':
            raise V.HarnessGap('populating build failed')
        if not any(f.endswith('.tgz') for d, ds, fs in os.walk(arch) for f in fs):
            raise V.HarnessGap('nothing was uploaded')
        w = World(fresh('projB')) if fresh2 else wa
        st = apply_edit(st, e1)
        if e1 == 11:
            user_edit(w, st, False, st['srcedit'])

        def verify(o, outs, what, mode='yes'):
            if o != 'ok' and mode in MAY_FAIL:
                return None           # a forced download of something the archive does not hold has to fail
            if o != 'ok':
                return 'invocation-failed-' + o + what
            want = clean_build({k: v for k, v in st.items() if k != 'archive'}, False, current_user_txt(w))
            if 'app' not in outs or 'out.txt' not in outs['app']:
                raise V.HarnessGap('no result of the root package found')
            if outs.get('app') != want['app']:
                return 'result-differs-from-local-build' + what
            ref = clean_build.last.by_vid
            # every package this invocation produced / downloaded / declared up to date (with downloads a dependency that
            # nobody needs is not visited at all; its workspace may hold an older variant)
            for key in w.cooked:
                if key not in ref:
                    raise V.HarnessGap('package variant unknown to the local build')
                if w.by_vid.get(key) != ref[key]:
                    if os.environ.get('W_DEBUG'):
                        print('DIFF', key, w.by_vid.get(key), ref[key], file=sys.__stderr__)
                    return 'result-differs-from-local-build' + what
            # C14: built or downloaded, every package result handled by this invocation carries a truthful audit trail
            os.chdir(w.root)
            saved, w.visited = w.visited, [(k[0] + '/dist', w.paths[k]) for k in w.cooked if k in w.paths]
            try:
                v = audit_check(w)
            finally:
                w.visited = saved
            if v:
                return v + what
            return None
        o, outs, res = invoke(w, st, False, ['--download=' + DMODES[d2]] + (['--upload'] if u2 else []))
        ex2 = list(w.execs)
        v = verify(o, outs, ' (2)', DMODES[d2])
        if v:
            return False, v
        if fresh2 and e1 == 0 and DMODES[d2] in ('yes', 'forced', 'forced-fallback'):
            if o != 'ok':
                return False, 'forced-download-failed-although-artifact-available'
            # identical recipes and sources at another location: everything comes from the archive
            if any(k.endswith('/build') or k.endswith('/dist') for k in ex2):
                return False, 'build-step-executed-although-artifact-available'
        st = apply_edit(st, e2)
        if e2 == 11:
            user_edit(w, st, False, st['srcedit'])
        if fault >= 0:
            w.fault = ('fail', STEP_KEYS[fault])
            o, outs, res = invoke(w, st, False, ['--download=' + DMODES[d3]])
            w.fault = None
            o, outs, res = invoke(w, st, False, ['--download=' + DMODES[d4]])
        else:
            o, outs, res = invoke(w, st, False, ['--download=' + DMODES[d3]])
        v = verify(o, outs, ' (3)', DMODES[d4] if fault >= 0 else DMODES[d3])
        if v:
            return False, v
        return True, 'ok'
    finally:
        os.chdir(cwd)


def artifacts(arch):
    out = []
    for d, ds, fs in os.walk(arch):
        for f in fs:
            if f.endswith('.tgz'):
                out.append(os.path.join(d, f))
    return sorted(out)


def repack(path):
    """a well-formed artifact whose content no longer matches its audit trail (re-packed with one file changed)"""
    import gzip as _gzip
    import tarfile as _tarfile
    raw = _gzip.decompress(open(path, 'rb').read())
    tin = _tarfile.open(fileobj=io.BytesIO(raw))
    out = io.BytesIO()
    tout = _tarfile.open(fileobj=out, mode='w', format=_tarfile.PAX_FORMAT, pax_headers=dict(tin.pax_headers))
    changed = False
    for m in tin:
        data = tin.extractfile(m).read() if m.isreg() else None
        if m.name == 'content/out.txt':
            data = b'foreign content'
            m.size = len(data)
            changed = True
        tout.addfile(m, io.BytesIO(data) if data is not None else None)
    tout.close()
    if not changed:
        raise V.HarnessGap('artifact without content/out.txt')
    return _gzip.compress(out.getvalue())


def pack_history(hostile, kind, idx, pos):
    """C08: workspace A uploads (lib's package result is a hostile tree); optionally ONE artifact is damaged (kind 1: truncated
    to pos bytes, 2: byte pos inverted, 3: replaced by another artifact of the archive, 4: replaced by garbage, 5: re-packed with one
    content file changed but the old audit trail); workspace B at
    another location builds with --download=deps"""
    install()
    cwd = os.getcwd()
    try:
        arch = fresh('archive')
        st = initial()
        st['archive'] = arch
        st['hostile'] = hostile
        wa = World(fresh('projA'))
        o, outs, res = invoke(wa, st, False, ['--download=no', '--upload'])
        if o != 'ok':
            raise V.HarnessGap('populating build failed')
        arts = artifacts(arch)
        if len(arts) < 3:
            raise V.HarnessGap('expected at least 3 artifacts')
        damaged = None
        if kind:
            # the artifacts a downloader of this project state actually fetches (an intact trial run)
            w0 = World(fresh('projB0'))
            o, outs, res = invoke(w0, st, False, ['--download=deps'])
            needed = sorted(set(f for f in w0.opened if f.endswith('.tgz') and os.path.exists(f)))
            if o != 'ok' or not needed:
                raise V.HarnessGap('trial download failed')
            damaged = needed[idx % len(needed)]
            data = open(damaged, 'rb').read()
            if kind == 1:
                new = data[:pos % len(data)]
            elif kind == 2:
                q = pos % len(data)
                new = data[:q] + bytes([data[q] ^ 0xff]) + data[q + 1:]
            elif kind == 3:
                # (a complete artifact of ANOTHER build-id under this name is accepted by Bob: the audit trail inside is
                # consistent with its content and its build-id is not compared -- observation, not part of the plan)
                new = open([a for a in arts if a != damaged][0], 'rb').read()
            elif kind == 5:
                new = repack(damaged)
            else:
                new = b'this is not a gzip stream' * 10
            os.chmod(damaged, 0o644)
            with open(damaged, 'wb') as f:
                f.write(new)
        w = World(fresh('projB'))
        o, outs, res = invoke(w, st, False, ['--download=deps'])
        if o == 'killed':
            raise V.HarnessGap('killed')
        if o in ('error', 'crash'):
            if not kind:
                return False, 'download-of-intact-artifacts-failed'
            # rejected (a crash with a traceback -- e.g. zlib.error -- is ungraceful but not "silently used").  Whatever was
            # half extracted must not count as a result later on: a purely local build in the same workspace is right
            how = 'rejected' if o == 'error' else 'rejected-by-internal-error'
            # the user simply tries again: still rejected, or right -- never the damaged content
            o, outs, res = invoke(w, st, False, ['--download=deps'])
            if o == 'ok':
                want = clean_build({k: v for k, v in st.items() if k != 'archive'}, False)
                if outs.get('app') != want['app']:
                    return False, 'damaged-artifact-used-on-retry'
                for key in w.cooked:
                    if w.by_vid.get(key) != clean_build.last.by_vid.get(key):
                        return False, 'damaged-artifact-used-on-retry'
            o, outs, res = invoke(w, st, False, ['--download=no'])
            if o != 'ok':
                return False, 'workspace-unusable-after-rejected-download'
            want = clean_build({k: v for k, v in st.items() if k != 'archive'}, False)
            if outs.get('app') != want['app']:
                return False, 'remains-of-damaged-artifact-were-used'
            for key in w.cooked:
                if w.by_vid.get(key) != clean_build.last.by_vid.get(key):
                    return False, 'remains-of-damaged-artifact-were-used'
            return True, how
        want = clean_build({k: v for k, v in st.items() if k != 'archive'}, False)
        ref = clean_build.last.by_vid
        if outs.get('app') != want['app']:
            return False, 'root-result-differs'
        for key in w.cooked:
            if key not in ref:
                raise V.HarnessGap('package variant unknown to the local build')
            if w.by_vid.get(key) != ref[key]:
                return False, 'extracted-tree-differs-from-packed-tree' if not kind else 'damaged-artifact-was-used'
        if not kind:
            if any(k.startswith('lib/') or k.startswith('mid/') for k in w.execs if not k.endswith('/src')):
                return False, 'intact-artifact-not-used'
            # the audit trail travels unchanged
            import glob as _glob
            import gzip as _gzip
            ga = [_gzip.decompress(open(a, 'rb').read()) for a in _glob.glob(os.path.join(wa.root, 'dev', 'dist', '*', '*', 'audit.json.gz'))]
            gb = [_gzip.decompress(open(a, 'rb').read()) for a in _glob.glob(os.path.join(w.root, 'dev', 'dist', '*', '*', 'audit.json.gz'))
                  if '/dist/app/' not in a]
            if not gb:
                raise V.HarnessGap('no downloaded audit trail found')
            for x in gb:
                if x not in ga:
                    return False, 'audit-trail-changed-in-transit'
        return True, 'ok'
    finally:
        os.chdir(cwd)


def check_c08_tree(hostile: int) -> bool:
    """
    pre: 0 <= hostile < 64
    post: _
    """
    V.enter()
    h = V.concretize(hostile, 64)
    with V.fast():
        ok, fact = pack_history(h, 0, 0, 0)
    return V.verdict(ok, fact)


def check_c07_foreign(kind: int, idx: int) -> bool:
    """C07 "whatever the archive contains": an artifact name holding garbage (4) or a well-formed artifact whose content is not
    the one its audit trail describes (5)
    pre: 4 <= kind <= 5
    pre: 0 <= idx < 2
    post: _
    """
    V.enter()
    k = V.concretize(kind, 6, 4)
    i = V.concretize(idx, 2)
    with V.fast():
        ok, fact = pack_history(0, k, i, 0)
    return V.verdict(ok, fact)


def check_c08_damage(kind: int, idx: int, pos: int) -> bool:
    """
    pre: 1 <= kind <= 5
    pre: 0 <= idx < 2
    pre: 0 <= pos < V.SHARD[1]
    pre: kind == V.SHARD[0]
    pre: kind <= 2 or pos == 0
    pre: V.SHARD[2] < 0 or idx == V.SHARD[2]
    post: _
    """
    V.enter()
    k = V.SHARD[0]
    i = V.concretize(idx, 2)
    p = V.concretize(pos, V.SHARD[1]) * V.SHARD[4]
    with V.fast():
        ok, fact = pack_history(V.SHARD[3], k, i, p)
    return V.verdict(ok, fact)


def check_c07(e1: int, fresh2: bool, d2: int, u2: bool, again: int, d3: int, fault: int, d4: int) -> bool:
    """
    pre: 0 <= e1 < EDITS
    pre: 0 <= again <= 2
    pre: 0 <= d2 <= 2 and 0 <= d3 <= 2 and 0 <= d4 <= 2
    pre: -1 <= fault < 8
    pre: e1 == V.SHARD[0]
    pre: fault >= 0 or d4 == 0
    pre: V.SHARD[1] or (fault < 0 and again != 1) or (fault >= 0 and fault % 3 == 2 and u2 and again == 0)
    post: _
    """
    V.enter()
    e = V.SHARD[0]
    a2 = V.concretize(d2, 3)
    a3 = V.concretize(d3, 3)
    a4 = V.concretize(d4, 3)
    f = V.concretize(fault, 8, -1)
    fr, up = bool(fresh2), bool(u2)
    ag = V.concretize(again, 3)
    with V.fast():
        # the edit before the third invocation: nothing / the same edit once more (mostly: reverted) / the user edits the sources
        ok, fact = archive_history(e, fr, a2, up, (0, e, 11)[ag], a3, f, a4)
    return V.verdict(ok, fact)


def check_c07_modes(e1: int, fresh2: bool, d2: int, again: bool, d3: int) -> bool:
    """the forced / forced-deps / forced-fallback / packages=<regex> download modes: a forced invocation may fail when the
    archive lacks an artifact; whatever completed equals the local build
    pre: 0 <= e1 < EDITS
    pre: 3 <= d2 <= 7 and 0 <= d3 <= 7
    pre: e1 == V.SHARD[0]
    pre: V.SHARD[1] or d3 == 1 or d3 == d2
    post: _
    """
    V.enter()
    e = V.SHARD[0]
    a2 = V.concretize(d2, 8, 3)
    a3 = V.concretize(d3, 8)
    fr, ag = bool(fresh2), bool(again)
    with V.fast():
        ok, fact = archive_history(e, fr, a2, False, e if ag else 0, a3, -1, 0)
    return V.verdict(ok, fact)


def PLAN(tier):
    q = tier == 'quick'
    P = []
    for e in range(EDITS):
        P.append(dict(fn='check_c07_modes', shard=[e, not q], timeout=900 if q else 3000))
    for e in range(EDITS):
        P.append(dict(fn='check_c01', shard=[e, 2 if q else 3], timeout=500 if q else 3000))
    for rel in (False, True):
        for (fk, n, step) in ((0, 8, 4), (1, 8, 4), (2, 20 if q else 60, 5), (3, 8, 4), (4, 20 if q else 60, 5), (5, 8, 4)):
            if q and rel and fk in (2, 3, 4):
                continue
            for lo in range(0, n, step):
                P.append(dict(fn='check_c05', shard=[fk, lo, min(n, lo + step), rel], timeout=600 if q else 3000))
    P.append(dict(fn='check_c06', shard=[0], timeout=600))
    for e in range(EDITS):
        P.append(dict(fn='check_c07', shard=[e, not q], timeout=900 if q else 3000))
    P.append(dict(fn='check_c07_foreign', shard=[0], timeout=600))
    for k in range(4):
        P.append(dict(fn='check_c16_clean', shard=[k], timeout=900))
    P.append(dict(fn='check_c08_tree', shard=[0], timeout=900))
    # artifacts are 1.7 - 3 kB (plain project) / up to 12 kB (hostile tree): shard = [kind, positions, artifact, tree, stride];
    # thorough: every truncation length and every byte position of the plain artifacts
    for k in (1, 2):
        for i in range(2):
            if q:
                P.append(dict(fn='check_c08_damage', shard=[k, 100, i, 0, 31], timeout=900))
            else:
                P.append(dict(fn='check_c08_damage', shard=[k, 3000, i, 0, 1], timeout=3000))
                P.append(dict(fn='check_c08_damage', shard=[k, 400, i, 63, 31], timeout=3000))
    for k in (4, 5):
        P.append(dict(fn='check_c08_damage', shard=[k, 1, -1, 0, 1], timeout=600))
        P.append(dict(fn='check_c08_damage', shard=[k, 1, -1, 63, 1], timeout=600))
    return P

"""Recipe level: which variables a step sees and which of them enter its Variant-Id
(C02: "declared (non-weak) variables and values"; C13: "exactly the variables declared
for that step").

Real code executed: bob.input.Recipe.__init__/resolveClasses/prepare (variable lists,
carry-forward checkout->build->package, weak/strong split, Env.prune), the
CoreStep constructors and CoreStep.getDigest with the real hashlib, on a recipe and an
inherited class built from dictionaries.  Symbolic: for one variable the membership in
each of the six lists {checkout,build,package}Vars[Weak] of the recipe and of the class
(12 booleans) and whether it is defined at all.
Oracle = documented rule (doc/manual/configuration.rst, "{checkout,build,package}Vars"
and "...VarsWeak"): a variable consumed in one step is also set in the following ones;
weak inclusion has no effect if the variable is also listed strongly; strong variables
(and only they) contribute to variant management.
"""
import os
import sys
from unittest.mock import MagicMock
from lib import V
sys.path.insert(0, V.REPO + '/pym')

from bob.input import Recipe
from bob.languages import ScriptLanguage
from bob.stringparser import Env, DEFAULT_STRING_FUNS

ENCODED = ['bob.input.Recipe.__init__', 'bob.input.Recipe.resolveClasses', 'bob.input.Recipe.prepare',
           'bob.stringparser.Env.prune', 'bob.input.CoreStep.__init__', 'bob.input.CoreStep.getDigest',
           'bob.input.CorePackage.createCoreCheckoutStep', 'bob.input.CorePackage.createCoreBuildStep',
           'bob.input.CorePackage.createCorePackageStep']
STUBS = ['RecipeSet is a MagicMock offering scriptLanguage/getPolicy/getClass (as the unit tests of the repository do)']
ASSUMPTIONS = ['documented variable rules are the specification']
BOUNDS = 'one recipe + one inherited class, one variable X (defined or not), one always-strong control variable and one optional weak control variable; all 2^14 combinations'

LISTS = ['checkoutVars', 'checkoutVarsWeak', 'buildVars', 'buildVarsWeak', 'packageVars', 'packageVarsWeak']


def prepare(recipe, classes, env):
    cwd = os.getcwd()
    rs = MagicMock()
    rs.loadBinary = MagicMock()
    rs.scriptLanguage = ScriptLanguage.BASH
    rs.getPolicy = lambda x: None
    cc = {n: Recipe(rs, dict(r, checkoutUpdateIf=False), "", n + ".yaml", cwd, n, n, {}, False)
          for n, r in classes.items()}
    rs.getClass = lambda x, cc=cc: cc[x]
    e = Env(env)
    e.funs = DEFAULT_STRING_FUNS
    ret = Recipe(rs, dict(recipe, checkoutUpdateIf=False), "", "foo.yaml", cwd, "foo", "foo", {})
    ret.resolveClasses(e)
    return ret.prepare(e, False, {})[0].refDeref([], {}, None, None)


def build(bits, defined, value, wctl=False):
    recipe = {'inherit': ['cls'], 'checkoutScript': 'c', 'buildScript': 'b', 'packageScript': 'p',
              'checkoutDeterministic': True}
    cls = {}
    for i, l in enumerate(LISTS):
        recipe[l] = ['CTRL'] if l == 'checkoutVars' else []
        cls[l] = []
        if bits[i]:
            recipe[l] = recipe[l] + ['X']
        if bits[6 + i]:
            cls[l] = ['X']
    env = {'CTRL': 'ctrl', 'W': 'w'}
    if wctl:
        recipe['buildVarsWeak'] = recipe['buildVarsWeak'] + ['W']
    if defined:
        env['X'] = value
    return prepare(recipe, {'cls': cls}, env)


def scenario(bits, defined, wctl=False):
    pkg1 = build(bits, defined, 'one', wctl)
    pkg2 = build(bits, defined, 'two', wctl)
    steps1 = [pkg1.getCheckoutStep(), pkg1.getBuildStep(), pkg1.getPackageStep()]
    steps2 = [pkg2.getCheckoutStep(), pkg2.getBuildStep(), pkg2.getPackageStep()]
    strong = weak = False
    for s in range(3):
        strong = strong or bits[2 * s] or bits[6 + 2 * s]
        weak = weak or bits[2 * s + 1] or bits[6 + 2 * s + 1]
        visible = defined and (strong or weak)
        if ('X' in steps1[s].getEnv()) != visible:
            return False, 'visibility step %d' % s
        if visible and steps1[s].getEnv()['X'] != 'one':
            return False, 'value step %d' % s
        if 'CTRL' not in steps1[s].getEnv():
            return False, 'control variable lost in step %d' % s
        if ('W' in steps1[s].getEnv()) != (wctl and s >= 1):
            return False, 'weak control variable in step %d' % s
        # only strong variables take part in variant management.  The id of a later step also
        # depends on the ids of the earlier steps of the package (they are its inputs), which is
        # covered by the cumulative `strong`.
        differs = steps1[s].getVariantId() != steps2[s].getVariantId()
        if differs != (defined and strong):
            return False, 'variant-id step %d' % s
        if ('X' in steps1[s]._coreStep.digestEnv) != (defined and strong):
            return False, 'digest env step %d' % s
    return True, 'ok'


def check_vars(r0: bool, r1: bool, r2: bool, r3: bool, r4: bool, r5: bool,
               c0: bool, c1: bool, c2: bool, c3: bool, c4: bool, c5: bool, defined: bool, wctl: bool) -> bool:
    """
    pre: r0 == bool(V.SHARD[0] & 1) and r2 == bool(V.SHARD[0] & 2) and r4 == bool(V.SHARD[0] & 4)
    post: _
    """
    V.enter()
    bits = [bool(b) for b in (r0, r1, r2, r3, r4, r5, c0, c1, c2, c3, c4, c5)]
    defined = bool(defined)
    with V.fast():
        ok, fact = scenario(bits, defined, bool(wctl))
    return V.verdict(ok, fact)


def PLAN(tier):
    return [dict(fn='check_vars', shard=[k], timeout=300 if tier == 'quick' else 900) for k in range(8)]

"""C19 -- Archive retention keeps exactly what is selected or referenced.

Real code executed: bob.cmds.archive.doArchiveClean / doArchiveFind main loops, query()
(grammar on concrete expression strings), RetainExpression.evaluate (LIMIT / ORDER BY
queue), ArchiveScanner.scan/__scan/remove/getBuildIds/getReferencedBuildIds/getVars with
a real sqlite3 index file, against a stub archiver.  Symbolic: for each of 3 artifacts
whether it exists now / existed at the previous scan, its package field, whether it has
the sort field, the reference edges; per condition one expression list from the
documented grammar and one index state (fresh / warm / stale).
Oracle: reference semantics written from the documentation (bob-archive man page).
"""
import os
import shutil
import sys
import tempfile
from lib import V
sys.path.insert(0, V.REPO + '/pym')

import bob.cmds.archive as CA

ENCODED = ['bob.cmds.archive.doArchiveClean', 'bob.cmds.archive.doArchiveFind', 'bob.cmds.archive.query',
           'bob.cmds.archive.RetainExpression.evaluate', 'bob.cmds.archive.RetainExpression.__init__',
           'bob.cmds.archive.ComparePredicate.evalBool', 'bob.cmds.archive.VarReference.evalString',
           'bob.cmds.archive.AndPredicate.evalBool', 'bob.cmds.archive.OrPredicate.evalBool',
           'bob.cmds.archive.NotPredicate.evalBool', 'bob.cmds.archive.ArchiveScanner.scan',
           'bob.cmds.archive.ArchiveScanner.__scan', 'bob.cmds.archive.ArchiveScanner.remove',
           'bob.cmds.archive.ArchiveScanner.__enter__', 'bob.cmds.archive.ArchiveScanner.__exit__',
           'bob.cmds.archive.ArchiveScanner.getBuildIds', 'bob.cmds.archive.ArchiveScanner.getReferencedBuildIds',
           'bob.cmds.archive.ArchiveScanner.getVars']
STUBS = ['archiver = in-memory stub (listDir/stat/getAudit/deleteFile); getArchivers re-bound to return it',
         'audit trail objects = stubs offering getArtifact()/getReferencedBuildIds(); print captured',
         'the sqlite index is a real file in a scratch directory (removed after every path)']
ASSUMPTIONS = ['the stat token of an artifact changes when the artifact is replaced']
BOUNDS = ('3 artifacts with distinct dates (field optionally missing), package in {p,q}, all reference DAGs over them; '
          '12 expression lists (comparison, boolean, LIMIT 1/2, ORDER BY ... ASC/DESC, two expressions); index fresh / warm / stale '
          '(stale: arbitrary different presence at the previous scan) / after an earlier clean followed by uploads')

NO_SOLVER_TIMEOUT = True
N = 3
BIDS = [bytes([0xa0 + i]) * 20 for i in range(N)]
DATES = ['2020-01-01', '2021-01-01', '2022-01-01']

EXPRS = [
    ['meta.package == "p"'],
    ['meta.package == "p" LIMIT 1'],
    ['meta.package == "p" LIMIT 2'],
    ['meta.package == "p" LIMIT 1 ORDER BY build.date ASC'],
    ['meta.package == "p" LIMIT 1 ORDER BY build.date DESC'],
    ['meta.package != "p" || build.date == "2022-01-01"'],
    ['!(meta.package == "p") LIMIT 1'],
    ['build.date >= "2021-01-01" && meta.package == "p"'],
    ['meta.package == "p" LIMIT 1', 'meta.package == "q" LIMIT 1 ORDER BY build.date ASC'],
    ['meta.package == "q"', 'meta.package == "p" LIMIT 1'],
    ['meta.package == "p" LIMIT 1 ORDER BY meta.package'],
    ['meta.missing == "x"'],
    ['meta.package == "p"', 'meta.recipe == "r" LIMIT 1'],
    ['meta.recipe == "r" LIMIT 1 ORDER BY build.date ASC', 'meta.package == "q" LIMIT 1'],
    ['build.date != "2022-01-01"'],
    ['meta.package == "p" && meta.missing != "x"'],
    ['meta.missing != meta.absent'],
    ['build.date == meta.absent || meta.package != meta.recipe LIMIT 2'],
]


def fname(i):
    h = BIDS[i].hex()
    return os.path.join(h[0:2], h[2:4], h[4:] + '-1.tgz')


class Artifact:
    def __init__(self, i, pkg, hasdate):
        self.i, self.pkg, self.hasdate = i, pkg, hasdate

    def getMetaData(self):
        return {'package': self.pkg, 'recipe': 'r'}

    def getBuildInfo(self):
        return {'date': DATES[self.i]} if self.hasdate else {}

    def getMetaEnv(self):
        return {}


class Audit:
    def __init__(self, art, refs):
        self.art, self.refs = art, refs

    def getArtifact(self):
        return self.art

    def getReferencedBuildIds(self):
        return list(self.refs)


class Archiver:
    def __init__(self):
        self.files = {}      # index -> (stat token, Audit)
        self.deleted = []

    def getArchiveUri(self):
        return 'stub://archive'

    def getArchiveName(self):
        return 'stub'

    def canManage(self):
        return True

    def listDir(self, path):
        out = set()
        for i in self.files:
            parts = fname(i).split('/')
            cur = [] if path in ('.', '') else path.split('/')
            if parts[:len(cur)] == cur and len(parts) > len(cur):
                out.add(parts[len(cur)])
        return sorted(out)

    def stat(self, filename):
        for i, (st, a) in self.files.items():
            if fname(i) == filename:
                return st
        raise FileNotFoundError(filename)

    def getAudit(self, filename):
        for i, (st, a) in self.files.items():
            if fname(i) == filename:
                return a
        return None

    def deleteFile(self, filename):
        for i in list(self.files):
            if fname(i) == filename:
                del self.files[i]
                self.deleted.append(i)


class Args:
    local = True
    all = False
    backend = None


class _FastSqlite:
    """sqlite3 with durability switched off (the index is a cache; its crash safety is not the subject)"""
    Error = __import__('sqlite3').Error

    @staticmethod
    def connect(name, **kw):
        import sqlite3
        con = sqlite3.connect(name, **kw)
        con.execute('PRAGMA synchronous=OFF')
        con.execute('PRAGMA journal_mode=MEMORY')
        return con


def run_cmd(arch, dbname, fn, argv):
    out = []
    CA.sqlite3 = _FastSqlite
    CA.getArchivers = lambda args: [arch]
    CA.print = lambda *a, **k: out.append(' '.join(str(x) for x in a))
    orig_init = CA.ArchiveScanner.__init__

    def init(self, archiver):
        orig_init(self, archiver)
        self._ArchiveScanner__dbName = dbname
    CA.ArchiveScanner.__init__ = init
    try:
        fn(Args(), argv)
    finally:
        CA.ArchiveScanner.__init__ = orig_init
    return out


# ----------------------------------------------------------------- oracle ----
def ref_select(exprs, arts):
    """directly selected sets: list of acceptable choices per expression is folded into
    (must, may): artifacts that every correct implementation selects / may select"""
    import re
    must, may = set(), set()
    for e in exprs:
        m = re.match(r'^(.*?)(?: LIMIT (\d+)(?: ORDER BY ([\w.]+)(?: (ASC|DESC))?)?)?$', e)
        pred, limit, field, direction = m.group(1), m.group(2), m.group(3) or 'build.date', m.group(4) or 'DESC'
        matching = [i for i in arts if ref_pred(pred, arts[i])]
        if limit is None:
            must |= set(matching)
            may |= set(matching)
            continue
        n = int(limit)

        def key(i):
            return ref_field(field, arts[i])
        withk = [i for i in matching if key(i) is not None]
        without = [i for i in matching if key(i) is None]
        withk.sort(key=key, reverse=(direction != 'ASC'))
        ordered = withk + without          # artifacts lacking the sort field last
        if len(ordered) <= n:
            must |= set(ordered)
            may |= set(ordered)
            continue
        # ties at the cut: any choice among equal keys is acceptable
        cutkey = key(ordered[n - 1])
        better = [i for i in ordered if (key(i) is not None and cutkey is not None and
                                         ((key(i) > cutkey) if direction != 'ASC' else (key(i) < cutkey)))
                  or (cutkey is None and key(i) is not None)]
        tied = [i for i in ordered if key(i) == cutkey]
        must |= set(better)
        may |= set(better) | set(tied)
    return must, may


def ref_field(path, a):
    data = {'meta': a.getMetaData(), 'build': a.getBuildInfo(), 'metaEnv': a.getMetaEnv()}
    for p in path.split('.'):
        if not isinstance(data, dict) or p not in data:
            return None
        data = data[p]
    return data


def ref_pred(pred, a):
    """tiny evaluator for the enumerated predicates"""
    pred = pred.strip()
    if pred.startswith('!(') and pred.endswith(')'):
        return not ref_pred(pred[2:-1], a)
    for op in ('||', '&&'):
        if op in pred:
            l, r = pred.split(op, 1)
            return (ref_pred(l, a) or ref_pred(r, a)) if op == '||' else (ref_pred(l, a) and ref_pred(r, a))
    import re
    m = re.match(r'^([\w.]+) (==|!=|>=|<=|<|>) (?:"([^"]*)"|([\w.]+))$', pred)
    f, op, lit = m.group(1), m.group(2), m.group(3)
    if m.group(4) is not None:
        lit = ref_field(m.group(4), a)        # a field on the right hand side (None: does not exist)
        if lit is None and op not in ('==', '!='):
            raise ValueError('ordering comparison with a missing field')
    v = ref_field(f, a)
    if op == '==':
        return v == lit
    if op == '!=':
        return v != lit
    if v is None:
        raise ValueError('ordering comparison with a missing field')
    return {'>=': v >= lit, '<=': v <= lit, '<': v < lit, '>': v > lit}[op]


def closure(sel, refs, existing):
    kept = set(sel)
    todo = list(sel)
    while todo:
        i = todo.pop()
        for j in refs.get(i, ()):
            if j in existing and j not in kept:
                kept.add(j)
                todo.append(j)
    return kept


def scenario(ek, mode, now, prev, pkgs, hasdate, edges, dry):
    """mode 0 fresh, 1 warm, 2 stale"""
    exprs = EXPRS[ek]
    tmp = scratch()
    try:
        db = os.path.join(tmp, 'index.sqlite3')
        if os.path.exists(db):
            os.unlink(db)
        arch = Archiver()
        refs = {}
        k = 0
        for i in range(N):
            refs[i] = []
            for j in range(i + 1, N):
                if edges[k]:
                    refs[i].append(j)
                k += 1

        def mk(i, gen):
            return (b'stat%d-%d' % (i, gen), Audit(Artifact(i, 'p' if pkgs[i] else 'q', hasdate[i]),
                                                   [BIDS[j] for j in refs[i]]))
        if mode in (1, 2):
            state1 = prev if mode == 2 else now
            for i in range(N):
                if state1[i]:
                    arch.files[i] = mk(i, 1)
            run_cmd(arch, db, CA.doArchiveScan, [])
        if mode == 3:
            # history: an earlier `clean` (keep package p) on the previous content, then uploads
            for i in range(N):
                if prev[i]:
                    arch.files[i] = mk(i, 1)
            run_cmd(arch, db, CA.doArchiveClean, list(EXPRS[0]))
            survivors = set(arch.files)
            arch.deleted = []
            arch.files = {i: mk(i, 1) for i in range(N) if i in survivors or (now[i] and not prev[i])}
        else:
            arch.files = {i: mk(i, 1) for i in range(N) if now[i]}
        existing = set(arch.files)
        arts = {i: arch.files[i][1].getArtifact() for i in existing}
        try:
            must, may = ref_select(exprs, arts)
        except ValueError:
            return True, 'undefined-comparison'     # documented: only == and != work on missing fields
        # find (fresh and stale index; the other modes exercise clean only to keep the run short)
        if mode in (0, 2):
            out = run_cmd(arch, db, CA.doArchiveFind, list(exprs))
            found = set(i for i in range(N) if any(fname(i) in l for l in out))
            if not (must <= found <= may):
                return False, 'find'
        # clean
        before = dict(arch.files)
        out = run_cmd(arch, db, CA.doArchiveClean, (['--dry-run'] if dry else []) + list(exprs))
        if dry:
            if arch.files != before or arch.deleted:
                return False, 'dry-run-deleted'
            announced = set(i for i in range(N) if any(fname(i) in l for l in out))
            kept = existing - announced
        else:
            kept = set(arch.files)
        # acceptable kept sets: closure of any selection between must and may that the
        # implementation could have made; since `may - must` only contains tied artifacts
        # check the two bounds and the closure property
        lo, hi = closure(must, refs, existing), closure(may, refs, existing)
        if not (lo <= kept <= hi):
            return False, 'clean-kept-set'
        if closure(kept, refs, existing) != kept:
            return False, 'kept-set-not-closed'
        # a second find after cleaning lists exactly what is still selected
        return True, 'ok'
    finally:
        try:
            os.unlink(os.path.join(tmp, 'index.sqlite3'))
        except OSError:
            pass


_SCRATCH = []


def scratch():
    """one scratch directory per worker process (removed at exit)"""
    if not _SCRATCH:
        import atexit
        d = tempfile.mkdtemp(prefix='c19-%d-' % os.getpid(), dir='/dev/shm' if os.path.isdir('/dev/shm') else None)
        _SCRATCH.append(d)
        atexit.register(shutil.rmtree, d, True)
    return _SCRATCH[0]


def check_retain(n0: bool, n1: bool, n2: bool, p0: bool, p1: bool, p2: bool, k0: bool, k1: bool, k2: bool,
                 d0: bool, d1: bool, d2: bool, e0: bool, e1: bool, e2: bool, dry: bool) -> bool:
    """
    pre: V.SHARD[1] >= 2 or (p0 == n0 and p1 == n1 and p2 == n2)
    pre: V.SHARD[2] or (d0 and d1 and d2)
    pre: V.SHARD[3] or not dry
    pre: V.SHARD[4] or not e2
    pre: V.SHARD[5] < 0 or (n0 == bool(V.SHARD[5] & 1) and n1 == bool(V.SHARD[5] & 2))
    post: _
    """
    V.enter()
    ek, mode = V.SHARD[0], V.SHARD[1]
    now = [bool(n0), bool(n1), bool(n2)]
    prev = [bool(p0), bool(p1), bool(p2)]
    pkgs = [bool(k0), bool(k1), bool(k2)]
    hasdate = [bool(d0), bool(d1), bool(d2)]
    edges = [bool(e0), bool(e1), bool(e2)]
    dry = bool(dry)
    with V.fast():
        ok, fact = scenario(ek, mode, now, prev, pkgs, hasdate, edges, dry)
    return V.verdict(ok, fact)


DATE_EXPRS = (3, 14)


def PLAN(tier):
    q = tier == 'quick'
    P = []
    for ek in range(len(EXPRS)):
        for mode in (0, 1, 2, 3):
            if q and mode == 2 and ek not in (1, 3):
                continue
            if q and mode == 3 and ek not in (0,):
                continue
            if q and mode == 1 and ek not in (1, 9):
                continue
            symdate = (ek in DATE_EXPRS and mode == 0) if q else True
            symdry = (ek == 9 and mode == 0) if q else True
            for nm in (range(4) if (mode >= 2 or not q) else [-1]):
                P.append(dict(fn='check_retain', shard=[ek, mode, symdate, symdry, not q, nm], timeout=400 if q else 3000))
    return P

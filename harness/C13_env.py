"""C13 -- Steps run in exactly the declared environment (quoting kernel + end-to-end environment).

(1) check_quote (symbolic): for EVERY string v, the word produced by the quoting function that
    bob.languages uses for every value it writes into a bash prolog (`quote`) is read back by a
    POSIX-shell word lexer (specs: single quotes literal, double quotes around a single quote,
    unquoted safe characters literal) as exactly v, as one word, without any expansion.
(2) check_env (real execution): real in-process `bob dev [-E]` of a one-package project whose
    recipe gives a variable a hostile value; the REAL bash runs the build, package and
    fingerprint scripts, which dump the values they see (byte for byte) and the names of all
    exported variables.  Symbolic: which hostile value, preserve-environment flag, whether a
    host variable is white-listed.
Real code executed: bob.languages.BashLanguage.__formatProlog/__formatScript/mangleFingerprints/
setupFingerprint, StepSpec.fromStep, Invoker.__init__/__runCommand/executeStep/executeFingerprint,
Recipe.prepare environment pruning, LocalBuilder._getFingerprint.
"""
import contextlib
import io
import os
import shutil
import sys
import tempfile
from lib import V
sys.path.insert(0, V.REPO + '/pym')

import asyncio
import bob.languages as BL
import bob.state as BS
import bob.pathspec as PS
import bob.cmds.build.build as CB
import bob.cmds.build.state as ST
from bob.errors import BobError

NO_SOLVER_TIMEOUT = True
ENCODED = ['bob.languages.quote (shlex.quote)', 'bob.languages.BashLanguage.__formatProlog', 'bob.languages.BashLanguage.__formatScript',
           'bob.languages.BashLanguage.mangleFingerprints', 'bob.languages.BashLanguage.setupFingerprint', 'bob.languages.StepSpec.fromStep',
           'bob.invoker.Invoker.__init__', 'bob.invoker.Invoker.__runCommand', 'bob.invoker.Invoker.executeStep',
           'bob.invoker.Invoker.executeFingerprint', 'bob.builder.LocalBuilder._getFingerprint', 'bob.input.Recipe.prepare']
STUBS = ['check_quote: the shell is the word-lexer model below (sh quoting rules for the characters quote() can emit)',
         'check_env: EventLoopWrapper without process pool; the real bash executes the scripts']
ASSUMPTIONS = ['environment values contain no NUL byte (cannot be passed to a process)']
BOUNDS = ('check_quote: every Unicode string up to the shard length; check_env: 17 hostile values + all 400 pairs of 20 special fragments, 16 variables per invocation; x a recipe declaring PATH / '
          'LD_LIBRARY_PATH itself; first batch also x preserve-environment x white-list; 3 observed scripts (build, package, fingerprint)')

SAFE = 'abcdefghijklmnopqrstuvwxyzABCDEFGHIJKLMNOPQRSTUVWXYZ0123456789_@%+=:,./-'


def lex_word(w):
    """value of the shell word w as sh reads it, or None if w is not exactly one literal word made of the three constructs
    quote() may emit: unquoted safe characters, '...' (everything literal), "'" (a double-quoted single quote)"""
    out = ''
    i = 0
    n = len(w)
    if n == 0:
        return None
    while i < n:
        c = w[i]
        if c == "'":
            j = i + 1
            while j < n and w[j] != "'":
                j += 1
            if j >= n:
                return None            # unterminated quote
            out = out + w[i + 1:j]
            i = j + 1
        elif c == '"':
            if i + 2 < n and w[i + 1] == "'" and w[i + 2] == '"':
                out = out + "'"
                i += 3
            else:
                return None
        elif c in SAFE:
            out = out + c
            i += 1
        else:
            return None                # an unquoted character with a meaning to the shell
    return out


def check_quote(v: str) -> bool:
    """
    pre: len(v) == V.SHARD[0]
    pre: chr(0) not in v
    post: _
    """
    V.enter()
    w = BL.quote(v)
    r = lex_word(w)
    return V.verdict(r == v, r is None)


# ------------------------------------------------------------- end to end ----
SINGLES = ['plain', 'a b', '$HOME', '$(echo pwned)', '`echo pwned`', "it's", 'say "hi"', 'back\\slash', 'line1\nline2', 'tab\there',
           '  lead and trail  ', '*', 'ümlaut ✓', "';echo pwned;'", '${V0}', '-n', '']
FRAGMENTS = [' ', '$x', '`', "'", '"', '\\', '\n', '\t', '\\n', '\\t', '\\101', '*', 'ü', ';', '#', '!', '~', '{a,b}', '\r', '$\'']
VALUES = SINGLES + [a + 'x' + b for a in FRAGMENTS for b in FRAGMENTS]
BATCH = 16
NB = (len(VALUES) + BATCH - 1) // BATCH


class ELW:
    def __enter__(self):
        self.loop = asyncio.new_event_loop()
        asyncio.set_event_loop(self.loop)
        return (self.loop, None)

    def __exit__(self, *a):
        try:
            self.loop.close()
        except Exception:
            pass
        return False


_made, _nodes, _inst, _SCRATCH = [], [], [], []


def install():
    if _inst:
        return
    _inst.append(1)
    CB.EventLoopWrapper = ELW

    class Tracked(ST.DevelopDirOracle):
        def __init__(self, *a, **k):
            super().__init__(*a, **k)
            _made.append(self)
    CB.DevelopDirOracle = Tracked
    orig_init = PS.PkgGraphNode.init.__func__

    def _init(cls, *a, **k):
        n = orig_init(cls, *a, **k)
        _nodes.append(n)
        return n
    PS.PkgGraphNode.init = classmethod(_init)


def close_handles():
    for o in _made:
        db = getattr(o, '_DevelopDirOracle__db', None)
        if db is not None:
            try:
                con = db.connection
                db.close()
                con.close()
            except Exception:
                pass
    _made[:] = []
    for n in _nodes:
        try:
            n.close()
        except Exception:
            pass
    _nodes[:] = []
    if BS._BobState.instance is not None:
        BS.finalize()


def scratch():
    if not _SCRATCH:
        import atexit
        d = tempfile.mkdtemp(prefix='c13-%d-' % os.getpid(), dir='/dev/shm' if os.path.isdir('/dev/shm') else None)
        _SCRATCH.append(os.path.realpath(d))
        atexit.register(shutil.rmtree, d, True)
    return _SCRATCH[0]


DUMP = '''compgen -e > "%(out)s/%(step)s-names.txt"
for n in %(vars)s W2 U FP HVAR_WL HVAR_NO PATH LD_LIBRARY_PATH ; do
  if [[ -v $n ]] ; then printf '%%s' "${!n}" > "%(out)s/%(step)s-$n.txt" ; fi
done
type -P mytool > "%(out)s/%(step)s-mytool.txt" || true
'''


def scenario(batch, preserve, wl, declpath):
    import yaml
    install()
    cwd = os.getcwd()
    vals = VALUES[batch * BATCH:(batch + 1) * BATCH]
    names = ['V%d' % i for i in range(len(vals))]
    esc = lambda v: ''.join('\\' + c for c in v)       # literal in Bob's own substitution language (C17: escape is the identity)
    try:
        base = os.path.join(scratch(), 'w')
        shutil.rmtree(base, ignore_errors=True)
        proj = os.path.join(base, 'proj')
        out = os.path.join(base, 'out')
        os.makedirs(os.path.join(proj, 'recipes'))
        os.makedirs(out)
        with open(os.path.join(proj, 'config.yaml'), 'w') as f:
            f.write('bobMinimumVersion: "0.25"\n')
        with open(os.path.join(proj, 'default.yaml'), 'w') as f:
            yaml.safe_dump({'whitelist': ['HVAR_WL', 'PATH'] if wl else ['PATH']}, f)
        env = {n: esc(v) for n, v in zip(names, vals)}
        env.update({'W2': 'two', 'U': 'undeclared', 'FP': esc(vals[0])})
        bvars = names + ['FP']
        if declpath:
            env.update({'PATH': '/declared/bin', 'LD_LIBRARY_PATH': '/declared/lib'})
            bvars += ['PATH', 'LD_LIBRARY_PATH']
        d = {'out': out, 'vars': ' '.join(names)}
        recipe = {'root': True,
                  'depends': [{'name': 'tool', 'use': ['tools']}],
                  'environment': env,
                  'buildVars': bvars, 'packageVars': ['W2'], 'buildTools': ['mytool'], 'packageTools': ['mytool'],
                  'fingerprintIf': True, 'fingerprintVars': ['FP'],
                  'fingerprintScript': DUMP % dict(d, step='fp') + 'echo fingerprint\n',
                  'buildScript': DUMP % dict(d, step='build'),
                  'packageScript': DUMP % dict(d, step='package')}
        with open(os.path.join(proj, 'recipes', 'root.yaml'), 'w') as f:
            yaml.safe_dump(recipe, f, allow_unicode=True)
        with open(os.path.join(proj, 'recipes', 'tool.yaml'), 'w') as f:
            yaml.safe_dump({'packageScript': 'mkdir -p bin lib\nprintf "#!/bin/sh\\necho tool\\n" > bin/mytool\nchmod +x bin/mytool\n',
                            'provideTools': {'mytool': {'path': 'bin', 'libs': ['lib']}}}, f)
        os.environ['HOME'] = base          # (Debian's bash sources ~/.bashrc when stdin is a socket, as it is for fingerprint scripts)
        os.environ['HVAR_WL'] = 'host white'
        os.environ['HVAR_NO'] = 'host other'
        os.chdir(proj)
        buf = io.TextIOWrapper(io.BytesIO(), encoding='utf8', write_through=True)
        try:
            with contextlib.redirect_stdout(buf), contextlib.redirect_stderr(buf):
                CB.doDevelop((['-E'] if preserve else []) + ['root'], '/bobroot')
        except (BobError, SystemExit) as e:
            if not (isinstance(e, SystemExit) and not e.code):
                return False, 'build-failed'
        finally:
            close_handles()

        def seen(step, name):
            p = os.path.join(out, '%s-%s.txt' % (step, name))
            if not os.path.exists(p):
                return None
            with open(p, 'rb') as f:
                return f.read().decode('utf8', 'surrogateescape')

        for step in ('build', 'package', 'fp'):
            if not os.path.exists(os.path.join(out, step + '-names.txt')):
                raise V.HarnessGap(step + ' script did not run: ' + buf.buffer.getvalue().decode('utf8', 'replace')[-300:])
        # declared values, byte for byte
        for n, v in zip(names, vals):
            if seen('build', n) != v:
                return False, 'build-sees-wrong-value'
            if seen('package', n) != v:              # declared for an earlier step of the same package
                return False, 'package-sees-wrong-value'
        if seen('package', 'W2') != 'two':
            return False, 'package-misses-its-variable'
        if seen('fp', 'FP') != vals[0]:
            return False, 'fingerprint-sees-wrong-value'
        # consumed tools are found first on PATH / LD_LIBRARY_PATH, whatever the recipe declares under these names
        tooldir = os.path.join(proj, 'dev', 'dist', 'tool', '1', 'workspace')
        for step in ('build', 'package'):
            if (seen(step, 'mytool') or '').strip() != os.path.join(tooldir, 'bin', 'mytool'):
                return False, step + '-tool-not-on-PATH'
            if os.path.join(tooldir, 'lib') not in (seen(step, 'LD_LIBRARY_PATH') or '').split(':'):
                return False, step + '-tool-library-path'
        # nothing else
        for name in names[:1] + ['W2']:
            if seen('fp', name) is not None:
                return False, 'fingerprint-sees-step-variable'
        if seen('build', 'W2') is not None:
            return False, 'build-sees-variable-of-later-step'
        for step in ('build', 'package', 'fp'):
            if seen(step, 'U') is not None:
                return False, step + '-sees-undeclared-variable'
        if not preserve:
            for step in ('build', 'package', 'fp'):
                if seen(step, 'HVAR_NO') is not None:
                    return False, step + '-sees-host-variable'
                if (seen(step, 'HVAR_WL') == 'host white') != wl:
                    return False, step + '-whitelist'
        else:
            for step in ('build', 'package'):
                if seen(step, 'HVAR_NO') != 'host other':
                    return False, step + '-preserve-env'
        return True, 'ok'
    finally:
        os.chdir(cwd)


def check_env(batch: int, preserve: bool, wl: bool, declpath: bool) -> bool:
    """
    pre: 0 <= batch < NB
    pre: batch == 0 or (not preserve and wl)
    post: _
    """
    V.enter()
    i = V.concretize(batch, NB)
    p, w, d = bool(preserve), bool(wl), bool(declpath)
    with V.fast():
        ok, fact = scenario(i, p, w, d)
    return V.verdict(ok, fact)


def PLAN(tier):
    q = tier == 'quick'
    P = [dict(fn='check_env', shard=[0], timeout=900)]
    for n in range(0, 5 if q else 8):
        P.append(dict(fn='check_quote', shard=[n], timeout=300 if q else 3000))
    return P

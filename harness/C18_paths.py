"""C18 -- Package path queries return their declarative meaning.

Real code executed: bob.pathspec.PackageSet grammar (queries parsed once at import by the
real pyparsing grammar), LocationPath.evalForward/evalBackward, LocationStep.evalForward/
evalBackward (all axes), NotOperator/BinaryBoolOperator/BinaryStrOperator/StringLiteral
evaluation, PkgGraphNode.init/__convertPackageToGraph (real sqlite + pickle),
GraphPackageIterator, PackageSet.__findResultNodes, against stub packages.
Symbolic: the package graph -- for every pair of nodes i<j whether there is no edge, a
direct or an indirect (provided) dependency -- and the value of the variable the string
predicates look at.  Oracle: specs/xpath_ref.py (forward semantics per context package).
"""
import os
import random
import shutil
import sys
import tempfile
from lib import V
sys.path.insert(0, V.REPO + '/pym')

import bob.pathspec as PS
from bob.errors import BobError
from bob.stringparser import DEFAULT_STRING_FUNS
from specs import xpath_ref as R

NO_SOLVER_TIMEOUT = True
ENCODED = ['bob.pathspec.LocationPath.evalForward', 'bob.pathspec.LocationPath.evalBackward',
           'bob.pathspec.LocationPath.__findIntermediateNodes', 'bob.pathspec.LocationPath.__findReachableSubset',
           'bob.pathspec.LocationStep.evalForward', 'bob.pathspec.LocationStep.evalBackward',
           'bob.pathspec.NotOperator.evalBackward', 'bob.pathspec.BinaryBoolOperator.evalBackward',
           'bob.pathspec.BinaryStrOperator.evalBackward', 'bob.pathspec.StringLiteral.evalBackward',
           'bob.pathspec.StringLiteral.evalString', 'bob.pathspec.PkgGraphNode.init',
           'bob.pathspec.PkgGraphNode.__convertPackageToGraph', 'bob.pathspec.GraphPackageIterator.__iter__',
           'bob.pathspec.PackageSet.__findResultNodes', 'bob.pathspec.PackageSet.__init__']
STUBS = ['packages are stubs (name, id, direct/indirect dependency steps, stack, package step environment)',
         'the graph database is a real sqlite file in a per-process scratch directory']
ASSUMPTIONS = ['children of one package have distinct names (as Bob guarantees), every package is reachable from the root']
BOUNDS = ('every DAG over root + 3 packages named a, b, a (quick) / root + 4 (thorough) with edge kinds none/direct/indirect; '
          'queries enumerated from the documented grammar: all single steps (7 axes x 4 name tests x 9 predicates), a covering set '
          'of 2-step and seeded 3-step paths (absolute), nested / absolute / negated / boolean / string predicates')

NAMES3 = ['', 'a', 'b', 'a']
NAMES4 = ['', 'a', 'b', 'a', 'c']


# ------------------------------------------------------------ query list ----
PREDS = [
    None,
    ('path', (False, [('child', 'a', None)])),
    ('path', (False, [('descendant', 'b', None)])),
    ('not', ('path', (False, [('direct-child', '*', None)]))),
    ('cmp', '==', ('var', 'V'), ('lit', '1')),
    ('cmp', '<', ('var', 'V'), ('lit', '2')),
    ('and', ('cmp', '!=', ('var', 'V'), ('lit', '1')), ('path', (False, [('child', '*', None)]))),
    ('path', (True, [('child', 'a', None), ('child', '*', ('cmp', '==', ('var', 'V'), ('lit', '2')))])),
    ('or', ('str', ('var', 'W')), ('path', (False, [('child', '*', ('cmp', '>=', ('var', 'V'), ('lit', '2')))]))),
]
TESTS = ['a', 'b', '*', 'a*']


def build_queries(tier):
    rnd = random.Random(18)
    qs = []
    for ax in R.AXES:
        for t in TESTS:
            for p in PREDS:
                qs.append((True, [(ax, t, p)]))
    first = [(ax, t, None) for ax in R.AXES for t in ('a', '*')] + [('child', 'b', PREDS[4]), ('descendant', '*', PREDS[1])]
    second = [(ax, t, p) for ax in R.AXES for t in ('b', '*') for p in (None, PREDS[4])]
    for f in first:
        for s in second:
            qs.append((True, [f, s]))
    pool = [(ax, t, p) for ax in R.AXES for t in TESTS for p in PREDS[:6]]
    for _ in range(120 if tier == 'quick' else 400):
        qs.append((True, [rnd.choice(pool), rnd.choice(pool), rnd.choice(pool)]))
    if tier == 'quick':
        keep = qs[:252] + rnd.sample(qs[252:], 260)
        qs = keep
    return qs


TIER = os.environ.get('VERIF_TIER_INTERNAL', 'quick')


# ----------------------------------------------------------------- stubs ----
class PStep:
    def __init__(self, pkg):
        self.pkg = pkg

    def getPackage(self):
        return self.pkg

    def getEnv(self):
        return dict(self.pkg.env)

    def getTools(self):
        return {}


class Pkg:
    def __init__(self, i, name, env):
        self.i, self.name, self.env = i, name, env
        self.direct, self.indirect = [], []
        self.stack = ['']

    def getName(self):
        return self.name

    def _getId(self):
        return self.i

    def getDirectDepSteps(self):
        return [PStep(p) for p in self.direct]

    def getIndirectDepSteps(self):
        return [PStep(p) for p in self.indirect]

    def getStack(self):
        return self.stack

    def getPackageStep(self):
        return PStep(self)

    def getMetaEnv(self):
        return {}

    def getRecipe(self):
        return None

    def _getSandboxRaw(self):
        return None

    def getPluginStates(self):
        return {}


_SCRATCH = []


def scratch():
    if not _SCRATCH:
        import atexit
        d = tempfile.mkdtemp(prefix='c18-%d-' % os.getpid(), dir='/dev/shm' if os.path.isdir('/dev/shm') else None)
        _SCRATCH.append(d)
        atexit.register(shutil.rmtree, d, True)
    return _SCRATCH[0]


class _Sqlite:
    Error = __import__('sqlite3').Error

    @staticmethod
    def connect(name, **kw):
        import sqlite3
        con = sqlite3.connect(os.path.join(scratch(), name), **kw)
        con.execute('PRAGMA synchronous=OFF')
        con.execute('PRAGMA journal_mode=MEMORY')
        return con


class Session:
    """one real PackageSet whose grammar parsed all queries once; the package graph behind it is exchanged"""

    def __init__(self, tier):
        PS.sqlite3 = _Sqlite
        self.queries = build_queries(tier)
        self.ps = {}
        self.asts = {}
        for mode in ('nullset', 'nullglob', 'nullfail'):
            ps = PS.PackageSet(b'key', {}, DEFAULT_STRING_FUNS, lambda: None, mode)
            self.ps[mode] = ps
        g = self.ps['nullset']._PackageSet__pathGrammer
        self.parsed = []
        for q in self.queries:
            text = R.render(q)
            self.parsed.append((q, text, g.parse_string(text, True)[0]))
        self.gen = 0

    def load(self, root):
        """install a new package graph (new cache key -> the real code rebuilds the sqlite graph)"""
        self.gen += 1
        ps = self.ps['nullset']
        ps.close()
        ps._PackageSet__cacheKey = b'key%d' % self.gen
        ps._PackageSet__root = root
        ps._PackageSet__generator = lambda: root
        return ps


_SESSION = {}


def session():
    if 's' not in _SESSION:
        _SESSION['s'] = Session(V.param('tier', TIER))
    return _SESSION['s']


def make_graph(names, kinds, vals):
    """kinds: dict (i,j) -> 0 none / 1 direct / 2 indirect; returns (ref graph, stub root) or None if invalid"""
    n = len(names)
    edges = {}
    for (i, j), k in kinds.items():
        if k:
            edges[(i, j)] = 'd' if k == 1 else 'i'
    # validity: distinct child names, all reachable
    for i in range(n):
        ch = [names[j] for (a, j) in edges if a == i]
        if len(ch) != len(set(ch)):
            return None
    reach, todo = {0}, [0]
    while todo:
        x = todo.pop()
        for (a, j) in edges:
            if a == x and j not in reach:
                reach.add(j)
                todo.append(j)
    if len(reach) != n:
        return None
    env = [{} if i == 0 else {'V': vals[i]} for i in range(n)]
    g = R.Graph(names, edges, env)
    pk = [Pkg(i, names[i], env[i]) for i in range(n)]
    for (i, j), k in sorted(edges.items()):
        (pk[i].direct if k == 'd' else pk[i].indirect).append(pk[j])
    # stacks (any root path)
    def setstack(p, st):
        p.stack = st
        for c in p.direct + p.indirect:
            if c.stack == ['']:
                setstack(c, st + [c.name])
    setstack(pk[0], [''])
    return g, pk[0]


def resolve(g, stack):
    """follow child names from the root; returns the node list or None"""
    cur = 0
    path = [0]
    for name in stack:
        nxt = [j for (a, j) in g.edges if a == cur and g.names[j] == name]
        if len(nxt) != 1:
            return None
        cur = nxt[0]
        path.append(cur)
    return path


def check_one(g, root, skip_known=None):
    """skip_known: when given (a list), occurrences of the known finding 'reported path does not pass
    through an intermediate step' are appended to it instead of failing (other violations still fail)"""
    s = session()
    ps = s.load(root)
    graph_root = ps._PackageSet__getGraphRoot()
    find = ps._PackageSet__findResultNodes
    for (q, text, ast) in s.parsed:
        want = R.eval_path(g, 0, q)
        try:
            nodes, valid = ast.evalForward(graph_root, 'nullset')
        except BobError:
            return False, 'error-in-nullset-mode: ' + text
        got = set(n.key() for n in nodes)
        if got != want:
            return False, 'node-set: %s want %s got %s' % (text, sorted(want), sorted(got))
        sets = R.step_sets(g, q)
        for query_all in (False, True):
            rep = list(find(graph_root, set(nodes), set(valid), query_all))
            ends = []
            for (stack, node) in rep:
                path = resolve(g, stack)
                if path is None or path[-1] != node.key():
                    return False, 'reported path is not a real path: %s %r' % (text, stack)
                # passes through the intermediate steps, in order
                k = 0
                for si, st in enumerate(sets):
                    while k < len(path) and path[k] not in st:
                        k += 1
                    if k >= len(path):
                        if skip_known is not None:
                            skip_known.append((text, stack))
                            break
                        return False, 'reported path misses step %d: %s %r' % (si, text, stack)
                ends.append(node.key())
            if set(ends) != want:
                return False, 'reported results: %s want %s got %s' % (text, sorted(want), sorted(ends))
            if not query_all and len(ends) != len(set(ends)):
                return False, 'result reported twice: ' + text
        # empty result handling
        for mode in ('nullglob', 'nullfail'):
            try:
                ast.evalForward(graph_root, mode)
                err = False
            except BobError:
                err = True
            if want:
                expect = False
            elif mode == 'nullfail':
                expect = True
            else:
                # nullglob: a missing plain path is an error, a pattern / predicate / search that matches nothing is not
                expect = R.missing_is_error(g, q)
            if expect is not None and err != expect:
                return False, 'empty-result mode %s: %s' % (mode, text)
    return True, 'ok'


PAIRS3 = [(0, 1), (0, 2), (0, 3), (1, 2), (1, 3), (2, 3)]


def check_graph3(e01: int, e02: int, e03: int, e12: int, e13: int, e23: int, v1: bool, v2: bool, v3: bool) -> bool:
    """
    pre: V.SHARD[2] or (v1 and v2 and v3)
    pre: 0 <= e01 <= 2 and 0 <= e02 <= 2 and 0 <= e03 <= 2 and 0 <= e12 <= 2 and 0 <= e13 <= 2 and 0 <= e23 <= 2
    pre: e01 == V.SHARD[0] and e02 == V.SHARD[1]
    post: _
    """
    V.enter()
    ks = [V.concretize(e, 3) for e in (e01, e02, e03, e12, e13, e23)]
    vals = ['', '1' if bool(v1) else '2', '2' if bool(v2) else '1', '1' if bool(v3) else '3']
    with V.fast():
        gr = make_graph(NAMES3, dict(zip(PAIRS3, ks)), vals)
        if gr is None:
            ok, fact = True, 'invalid-graph'
        else:
            ok, fact = check_one(*gr, skip_known=[] if 'kf_path_skips_step' in (V.param('exclude') or []) else None)
            if not ok:
                V.note('detail', fact[:200])
                fact = fact.split(':')[0]
    return V.verdict(ok, fact)


def kf_path_skips_step(**args):
    """known finding matcher: the counterexample fails (only) because a reported path does not pass
    through an intermediate step of the query although another path to the same package does"""
    names = NAMES3 if 'e04' not in args else NAMES4
    pairs = PAIRS3 if 'e04' not in args else PAIRS4
    ks = [args['e%d%d' % p] for p in pairs]
    if 'e04' not in args:
        vals = ['', '1' if args['v1'] else '2', '2' if args['v2'] else '1', '1' if args['v3'] else '3']
    else:
        vals = ['', '1', '2', '1', '2']
    gr = make_graph(names, dict(zip(pairs, ks)), vals)
    if gr is None:
        return False
    ok, fact = check_one(*gr)
    return (not ok) and fact.startswith('reported path misses step')


PAIRS4 = [(i, j) for i in range(5) for j in range(i + 1, 5)]


def check_graph4(e01: int, e02: int, e03: int, e04: int, e12: int, e13: int, e14: int, e23: int, e24: int, e34: int) -> bool:
    """
    pre: 0 <= e01 <= 2 and 0 <= e02 <= 2 and 0 <= e03 <= 2 and 0 <= e04 <= 2 and 0 <= e12 <= 2
    pre: 0 <= e13 <= 2 and 0 <= e14 <= 2 and 0 <= e23 <= 2 and 0 <= e24 <= 2 and 0 <= e34 <= 2
    pre: e01 == V.SHARD[0] and e02 == V.SHARD[1] and e03 == V.SHARD[2] and e04 == V.SHARD[3]
    post: _
    """
    V.enter()
    ks = [V.concretize(e, 3) for e in (e01, e02, e03, e04, e12, e13, e14, e23, e24, e34)]
    vals = ['', '1', '2', '1', '2']
    with V.fast():
        gr = make_graph(NAMES4, dict(zip(PAIRS4, ks)), vals)
        if gr is None:
            ok, fact = True, 'invalid-graph'
        else:
            ok, fact = check_one(*gr, skip_known=[] if 'kf_path_skips_step' in (V.param('exclude') or []) else None)
            if not ok:
                V.note('detail', fact[:200])
                fact = fact.split(':')[0]
    return V.verdict(ok, fact)


def PLAN(tier):
    P = []
    if tier == 'quick':
        for a in range(3):
            for b in range(3):
                P.append(dict(fn='check_graph3', shard=[a, b, a == 1 and b == 1], timeout=500, params={'tier': 'quick'}))
    else:
        for a in range(3):
            for b in range(3):
                P.append(dict(fn='check_graph3', shard=[a, b, True], timeout=1500, params={'tier': 'thorough'}))
        for a in range(3):
            for b in range(3):
                for c in range(3):
                    for d in range(3):
                        P.append(dict(fn='check_graph4', shard=[a, b, c, d], timeout=3000, params={'tier': 'quick'}))
    return P

"""C03 (parser level) -- Variant-Ids do not depend on where and in which order the project is stored.

Real code executed: bob.input.RecipeSet.parse / generatePackages / Recipe.prepare and all
CoreStep digests on generated project files (generator of harness/C04_caches.py), once per
configuration.
Symbolic: the project (feature bits) and the id-irrelevant perturbation: absolute project
path (short / long / with blanks and non-ASCII), creation order of the recipe files
(directory listing order), file timestamps, a second parse in the same process (warm
caches), sandbox switched on for recipes that never look at it, and -- in separate
interpreter processes -- PYTHONHASHSEED.
Oracle: the Variant-Ids of the checkout, build and package step of every package path are
identical to those of the unperturbed parse.
"""
import os
import shutil
import subprocess
import sys
import tempfile
from lib import V
sys.path.insert(0, V.REPO + '/pym')

from harness import C04_caches as G
import bob.input as BI
from bob.input import RecipeSet

NO_SOLVER_TIMEOUT = True
ENCODED = ['bob.input.RecipeSet.parse', 'bob.input.RecipeSet.generatePackages', 'bob.input.Recipe.prepare', 'bob.input.CoreStep.getDigest',
           'bob.input.CoreStep.getResultId', 'bob.input.YamlCache.loadYaml']
STUBS = ['tty output discarded']
ASSUMPTIONS = []
BOUNDS = ('projects of harness/C04_caches.py (11 recipes, feature bits symbolic); perturbations: 3 other absolute paths, reversed file creation '
          'order (recipes and files included through a glob pattern), shifted time stamps, warm second parse, sandbox on (cond bit off), PYTHONHASHSEED 1 / 4711 in a fresh interpreter')

PATHS = ['p', 'a much longer/nested/project directory', 'wörk spaß/ü']


def ids(packages):
    out = {}
    root = packages.getRootPackage()

    def walk(pkg, path):
        key = '/'.join(path)
        if key in out:
            return
        out[key] = tuple(s.getVariantId().hex() if s.isValid() else None
                         for s in (pkg.getCheckoutStep(), pkg.getBuildStep(), pkg.getPackageStep()))
        for d in list(pkg.getDirectDepSteps()) + list(pkg.getIndirectDepSteps()):
            walk(d.getPackage(), path + [d.getPackage().getName()])
    walk(root, [''])
    return out


def parse_ids(root, sandbox):
    os.chdir(root)
    rs = RecipeSet()
    rs.parse({})
    packages = rs.generatePackages(lambda s, m: 'unused', sandbox)
    try:
        return ids(packages)
    finally:
        packages.close()
        for n in G._nodes:
            try:
                n.close()
            except Exception:
                pass
        G._nodes[:] = []


def write_includes(root, reverse):
    """leaf includes two files through a glob pattern: their order must not depend on the directory listing order"""
    rd = os.path.join(root, 'recipes')
    os.makedirs(os.path.join(rd, 'inc'), exist_ok=True)
    for n in (['b.txt', 'a.txt'] if reverse else ['a.txt', 'b.txt']):
        with open(os.path.join(rd, 'inc', n), 'w') as f:
            f.write('content of ' + n + '\n')
    with open(os.path.join(rd, 'leaf.yaml')) as f:
        text = f.read()
    with open(os.path.join(rd, 'leaf.yaml'), 'w') as f:
        f.write(text.replace('packageScript: "leaf-0"', 'packageScript: "cat $<@inc/*.txt@> $<\'inc/*.txt\'>"'))


def write_perturbed(root, bits, reverse, shift, inc=False):
    G.write(root, bits, 0, False)
    if inc:
        write_includes(root, reverse)
    rd = os.path.join(root, 'recipes')
    if reverse:
        # re-create the files in the opposite order (directory listing order of most file systems follows creation)
        names = sorted((n for n in os.listdir(rd) if n.endswith('.yaml')), reverse=True)
        tmp = rd + '.new'
        os.makedirs(tmp)
        for n in names:
            shutil.copyfile(os.path.join(rd, n), os.path.join(tmp, n))
        if os.path.isdir(os.path.join(rd, 'inc')):
            os.makedirs(os.path.join(tmp, 'inc'))
            for n in ('b.txt', 'a.txt'):
                shutil.copyfile(os.path.join(rd, 'inc', n), os.path.join(tmp, 'inc', n))
        shutil.rmtree(rd)
        os.rename(tmp, rd)
    if shift:
        for d, ds, fs in os.walk(root):
            for f in fs:
                os.utime(os.path.join(d, f), (1000000000 + shift, 1000000000 + shift))


def scenario(bits, pidx, reverse, shift, warm, sandbox, inc=False):
    G.install()
    import io
    import contextlib
    cwd = os.getcwd()
    buf = io.StringIO()
    try:
        with contextlib.redirect_stderr(buf), contextlib.redirect_stdout(buf):
            base = G.fresh('ref')
            write_perturbed(base, bits, False, 0, inc)
            want = parse_ids(base, False)
            other = os.path.join(G.fresh('other'), PATHS[pidx])
            os.makedirs(other)
            write_perturbed(other, bits, reverse, 86400 * 365 if shift else 0, inc)
            got = parse_ids(other, sandbox)
            if warm:
                got2 = parse_ids(other, sandbox)
                if got2 != got:
                    return False, 'second-parse-differs'
        if got != want:
            return False, 'ids-depend-on-location-or-order'
        return True, 'ok'
    finally:
        os.chdir(cwd)


def check_location(lx: bool, mx: bool, tx: bool, direct: bool, order: bool, ly: bool, mpass: bool, pre: bool, r0x: bool, plain: bool,
                   pidx: int, reverse: bool, shift: bool, warm: bool, sandbox: bool, inc: bool) -> bool:
    """
    pre: 0 <= pidx <= 2
    pre: pidx == V.SHARD[0]
    pre: lx == bool(V.SHARD[1] & 1) and mx == bool(V.SHARD[1] & 2)
    pre: V.SHARD[2] or (not ly and not r0x and not plain and warm and not pre)
    post: _
    """
    V.enter()
    bits = [bool(b) for b in (lx, mx, tx, direct, order, ly, False, mpass, pre, r0x, plain)]      # cond off: nobody queries the sandbox
    p = V.SHARD[0]
    rv, sh, wm, sb, ic = bool(reverse), bool(shift), bool(warm), bool(sandbox), bool(inc)
    with V.fast():
        ok, fact = scenario(bits, p, rv, sh, wm, sb, ic)
    return V.verdict(ok, fact)


HELPER = '''
import sys, os, json
sys.path.insert(0, %r)
sys.path.insert(0, %r + '/pym')
os.environ['VERIF_REPO'] = %r
from harness import C03_location as L
print(json.dumps(sorted(L.parse_ids(%r, False).items())))
'''


def seeds(preset):
    """PYTHONHASHSEED needs fresh interpreters"""
    import json
    cwd = os.getcwd()
    try:
        base = G.fresh('seedproj')
        G.write(base, G.PRESETS[preset], 0, False)
        outs = []
        for seed in ('0', '1', '4711'):
            env = dict(os.environ)
            env['PYTHONHASHSEED'] = seed
            for f in ('.bob-packages.pickle', '.bob-tree.sqlite3', '.bob-cache.sqlite3'):
                try:
                    os.unlink(os.path.join(base, f))
                except OSError:
                    pass
            p = subprocess.run([sys.executable, '-c', HELPER % (os.path.dirname(os.path.dirname(os.path.abspath(__file__))), V.REPO, V.REPO, base)],
                               stdout=subprocess.PIPE, stderr=subprocess.PIPE, env=env, universal_newlines=True)
            if p.returncode != 0:
                raise V.HarnessGap('helper failed: ' + p.stderr[-300:])
            outs.append(p.stdout.strip().splitlines()[-1])
        if len(set(outs)) != 1:
            return False, 'ids-depend-on-hash-seed'
        return True, 'ok'
    finally:
        os.chdir(cwd)


def check_hashseed(preset: int) -> bool:
    """
    pre: 0 <= preset <= 2
    post: _
    """
    V.enter()
    k = V.concretize(preset, 3)
    with V.fast():
        ok, fact = seeds(k)
    return V.verdict(ok, fact)


def PLAN(tier):
    q = tier == 'quick'
    P = [dict(fn='check_hashseed', shard=[0], timeout=600)]
    for p in range(3):
        for k in range(4):
            P.append(dict(fn='check_location', shard=[p, k, not q], timeout=600 if q else 3000))
    return P

"""C20 -- Jenkins job graph is acyclic, complete and faithful (job graph part).

Real code executed: bob.cmds.jenkins.jenkins.JobNameCalculator.addPackage/isolate/sanitize/
getJobInternalName/getJobDisplayName, _genJenkinsJobs, JenkinsJob.addStep/getUpstreamJobs,
genJenkinsBuildOrder, getJenkinsVariantId, on stub packages.
Symbolic: the dependency structure among the variants lib-a, lib-b, lib-c of one recipe
and a second recipe x (each pair: no dependency / argument / tool), which of them the root
depends on and in which order, sandbox use, an isolate pattern.
"""
import sys
from lib import V
sys.path.insert(0, V.REPO + '/pym')

import bob.cmds.jenkins.jenkins as JJ
from bob.errors import ParseError

NO_SOLVER_TIMEOUT = True
ENCODED = ['bob.cmds.jenkins.jenkins.JobNameCalculator.sanitize', 'bob.cmds.jenkins.jenkins.JobNameCalculator.addPackage',
           'bob.cmds.jenkins.jenkins.JobNameCalculator.isolate', 'bob.cmds.jenkins.jenkins.JobNameCalculator.getJobInternalName',
           'bob.cmds.jenkins.jenkins._genJenkinsJobs', 'bob.cmds.jenkins.jenkins.JenkinsJob.addStep',
           'bob.cmds.jenkins.jenkins.JenkinsJob.getUpstreamJobs', 'bob.cmds.jenkins.jenkins.genJenkinsBuildOrder',
           'bob.cmds.jenkins.intermediate.getJenkinsVariantId']
STUBS = ['packages / steps / tools / sandbox are stubs; PartialIR (job specification) replaced by a recorder']
ASSUMPTIONS = ['the package graph is a DAG; identical Variant-Id means identical step']
BOUNDS = ('root + variants lib-a, lib-b, lib-c of recipe lib + recipe x + a tool package tc that exists inside and outside a sandbox; '
          'every dependency kind (none/argument/tool) between the four packages in index order, every non-empty root dependency '
          'subset in 4 rotations, sandbox on lib-b, isolate pattern on/off; check_jobs2: lib-a and lib-b sharing one build step '
          '(same Variant-Id and dependencies), the second recipe named like the package prefix of a split job (lib-a / lib-a-x), root depending on all four or '
          'on the three lib variants in 4 rotations, forwards and backwards')


class Recipe:
    def __init__(self, name):
        self.name = name

    def getName(self):
        return self.name


class Tool:
    def __init__(self, step):
        self.step = step

    def getStep(self):
        return self.step


class Sandbox:
    def __init__(self, step):
        self.step = step

    def getStep(self):
        return self.step


class Step:
    def __init__(self, pkg, kind, vid):
        self.pkg, self.kind, self.vid = pkg, kind, vid
        self.args = []
        self.tools = {}
        self.sandbox = None

    def getVariantId(self):
        return self.vid

    def getSandbox(self):
        return self.sandbox

    def isPackageStep(self):
        return self.kind == 'dist'

    def isBuildStep(self):
        return self.kind == 'build'

    def isCheckoutStep(self):
        return self.kind == 'src'

    def isValid(self):
        return True

    def getPackage(self):
        return self.pkg

    def getArguments(self):
        return list(self.args)

    def getTools(self):
        return dict(self.tools)

    def getAllDepSteps(self):
        return list(self.args) + [t.getStep() for n, t in sorted(self.tools.items())] + \
            ([self.sandbox.getStep()] if self.sandbox else [])

    def __repr__(self):
        return '%s:%s' % (self.pkg.name, self.kind)


class Pkg:
    def __init__(self, name, recipe, tag, stack):
        self.name, self.recipe, self.stack = name, recipe, stack
        self.build = Step(self, 'build', (b'B' + tag).ljust(20, b'.'))
        self.dist = Step(self, 'dist', (b'P' + tag).ljust(20, b'.'))
        self.dist.args = [self.build]

    def getName(self):
        return self.name

    def getRecipe(self):
        return self.recipe

    def getStack(self):
        return self.stack

    def getPackageStep(self):
        return self.dist


class FakeIR:
    def __init__(self):
        self.added = []

    def add(self, step):
        self.added.append(step)


def build_world(kinds, rootmask, rot, sbx_b, tool_a, tool_b, share_ab=False, rev=False, clash=False):
    # clash: the second recipe is a multiPackage recipe whose *recipe* name equals the name a split job of
    # recipe lib gets from its package prefix (lib-a); package names stay distinct
    lib, xr = Recipe('lib'), Recipe('lib-a' if clash else 'x')
    xn = 'lib-a-x' if clash else 'x'
    P = [Pkg('lib-a', lib, b'a', ['root', 'lib-a']), Pkg(xn, xr, b'x', ['root', xn]),
         Pkg('lib-b', lib, b'b', ['root', 'lib-b']), Pkg('lib-c', lib, b'c', ['root', 'lib-c'])]
    if share_ab:
        # lib-a and lib-b are variants that differ in the package step only: their build steps have the same
        # Variant-Id and the same dependencies (multiPackage with a common buildScript / depends)
        P[2].build.vid = P[0].build.vid
        P[2].build.args = P[0].build.args
    pairs = [(0, 1), (0, 2), (0, 3), (1, 2), (1, 3), (2, 3)]
    for (i, j), k in zip(pairs, kinds):
        if share_ab and (i, j) == (0, 2) and k == 1:
            continue        # the common build step cannot depend on one of its own packages
        if share_ab and (i, j) == (1, 2) and kinds[0] == 1:
            continue        # lib-b's (common) build step already depends on the second recipe: keep the graph a DAG
        if k == 1:
            P[i].build.args.append(P[j].dist)
        elif k == 2:
            P[i].dist.tools['t%d' % j] = Tool(P[j].dist)
    sb = Pkg('sandbox', Recipe('sandbox'), b's', ['root', 'sandbox'])
    tcr = Recipe('tc')
    tc_plain = Pkg('tc', tcr, b't', ['root', 'lib-a', 'tc'])
    tc_sbx = Pkg('tc', tcr, b't', ['root', 'lib-b', 'tc'])        # same Variant-Ids, but built inside the sandbox
    tc_sbx.build.sandbox = Sandbox(sb.dist)
    tc_sbx.dist.sandbox = Sandbox(sb.dist)
    if sbx_b:
        P[2].build.sandbox = Sandbox(sb.dist)
        P[2].dist.sandbox = Sandbox(sb.dist)
        if share_ab:
            P[0].build.sandbox = Sandbox(sb.dist)
    if tool_a:
        P[0].dist.tools['tc'] = Tool(tc_plain.dist)
    if tool_b:
        P[2].dist.tools['tc'] = Tool(tc_sbx.dist)
    root = Pkg('root', Recipe('root'), b'r', ['root'])
    deps = [P[i] for i in range(4) if rootmask & (1 << i)]
    deps = deps[rot % max(len(deps), 1):] + deps[:rot % max(len(deps), 1)]
    if rev:
        deps.reverse()
    root.build.args = [d.dist for d in deps]
    return root


def reachable(root_step):
    seen, todo, out = set(), [root_step], []
    while todo:
        s = todo.pop()
        if id(s) in seen:
            continue
        seen.add(id(s))
        out.append(s)
        todo.extend(s.getAllDepSteps())
    return out


def scenario(kinds, rootmask, rot, sbx_b, tool_a, tool_b, isolate, share_ab=False, rev=False, clash=False):
    JJ.PartialIR = FakeIR
    root = build_world(kinds, rootmask, rot, sbx_b, tool_a, tool_b, share_ab, rev, clash)
    calc = JJ.JobNameCalculator('')
    calc.addPackage(root)
    calc.isolate('^lib-b$' if isolate else None)
    calc.sanitize()
    jobs = {}
    JJ._genJenkinsJobs(root.getPackageStep(), jobs, calc, False, False, set(), set(), False)
    try:
        order = JJ.genJenkinsBuildOrder(jobs)
    except ParseError:
        return False, 'cyclic'
    pos = {n: i for i, n in enumerate(order)}
    for name, job in jobs.items():
        for up in job.getUpstreamJobs():
            if up not in jobs:
                return False, 'unknown-upstream'
            if pos[up] >= pos[name]:
                return False, 'order-not-topological'
    # every reachable package is built by exactly one job
    vid = JJ.getJenkinsVariantId
    built = {}
    for name, job in jobs.items():
        recipes = set()
        for s in job.getPackageSteps():
            built.setdefault(vid(s), set()).add(name)
            recipes.add(s.getPackage().getRecipe().getName())
        # jobs are formed per recipe (or isolated package): two recipes in one job = two distinct jobs got one name
        if len(recipes) > 1:
            return False, 'job-names-not-unique'
    steps = reachable(root.getPackageStep())
    for s in steps:
        if s.isPackageStep():
            owners = built.get(vid(s), set())
            if len(owners) != 1:
                return False, 'package-built-by-%d-jobs' % len(owners)
    # a job depends on the jobs of everything its steps use.  A checkout/build step with one Variant-Id may belong
    # to several packages (and jobs): it is looked up in the job that uses it, package steps in their only job.
    injob = set()
    for name, job in jobs.items():
        mine = set()
        for s in list(job.getPackageSteps()) + list(job.getBuildSteps()) + list(job.getCheckoutSteps()):
            mine.add(vid(s))
        injob |= mine
        ups = job.getUpstreamJobs()
        for s in list(job.getPackageSteps()) + list(job.getBuildSteps()) + list(job.getCheckoutSteps()):
            for d in s.getAllDepSteps():
                if d.isPackageStep():
                    owners = built.get(vid(d), set())
                    if len(owners) != 1:
                        return False, 'dependency-in-no-job'
                    dj = next(iter(owners))
                    if dj != name and dj not in ups:
                        return False, 'missing-upstream'
                elif vid(d) not in mine:
                    return False, 'own-step-in-other-job'
    for s in steps:
        if vid(s) not in injob:
            return False, 'step-in-no-job'
    return True, 'ok'


def check_jobs(k0: int, k1: int, k2: int, k3: int, k4: int, k5: int, rootmask: int, rot: int,
               sbx_b: bool, tool_a: bool, tool_b: bool, isolate: bool) -> bool:
    """
    pre: 0 <= k0 <= 2 and 0 <= k1 <= 2 and 0 <= k2 <= 2 and 0 <= k3 <= 2 and 0 <= k4 <= 2 and 0 <= k5 <= 2
    pre: 1 <= rootmask <= 15
    pre: 0 <= rot <= 3
    pre: k0 == V.SHARD[0] and k1 == V.SHARD[1]
    pre: V.SHARD[2] or not isolate
    pre: V.SHARD[3] or rot == 0
    pre: V.SHARD[5] < 0 or k2 == V.SHARD[5]
    pre: V.SHARD[4] or rootmask == 15 or rootmask == 5 or rootmask == 12 or rootmask == 9 or rootmask == 7
    post: _
    """
    V.enter()
    kinds = [V.concretize(k, 3) for k in (k0, k1, k2, k3, k4, k5)]
    rm = V.concretize(rootmask, 16, 1)
    rt = V.concretize(rot, 4)
    with V.fast():
        ok, fact = scenario(kinds, rm, rt, bool(sbx_b), bool(tool_a), bool(tool_b), bool(isolate))
    return V.verdict(ok, fact)


def check_jobs2(k0: int, k1: int, k2: int, k3: int, k4: int, k5: int, allroots: bool, rot: int,
                rev: bool, share_ab: bool, clash: bool, sbx_b: bool) -> bool:
    """
    pre: 0 <= k0 <= 2 and 0 <= k1 <= 2 and 0 <= k2 <= 2 and 0 <= k3 <= 2 and 0 <= k4 <= 2 and 0 <= k5 <= 2
    pre: 0 <= rot <= 3
    pre: k0 == V.SHARD[0] and k1 == V.SHARD[1]
    pre: share_ab or clash
    pre: V.SHARD[2] or not sbx_b
    post: _
    """
    V.enter()
    kinds = [V.concretize(k, 3) for k in (k0, k1, k2, k3, k4, k5)]
    rt = V.concretize(rot, 4)
    with V.fast():
        ok, fact = scenario(kinds, 15 if allroots else 13, rt, bool(sbx_b), False, False, False,
                            bool(share_ab), bool(rev), bool(clash))
    return V.verdict(ok, fact)


def PLAN(tier):
    q = tier == 'quick'
    P = []
    for a in range(3):
        for b in range(3):
            P.append(dict(fn='check_jobs2', shard=[a, b, not q], timeout=400 if q else 3000))
    for a in range(3):
        for b in range(3):
            rot = (not q) or a == 1
            for c in (range(3) if rot else [-1]):
                P.append(dict(fn='check_jobs', shard=[a, b, not q or (a == 1 and b == 0), rot, not q, c],
                              timeout=400 if q else 3000))
    return P

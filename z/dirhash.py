"""Engine Z for C11: content-exactness of the directory hash as a z3 query over the bytes
the REAL bob.utils.DirHasher feeds into SHA-1.

The real `DirHasher.hashDirectory` (-> `__hashDir`, `__hashEntry`, `hashFile`, `__hashLink`,
`NullIndex.check`) is executed once per tree *shape* (entry types per directory) on a
stub directory whose names, permission bits, file contents, link targets and device
numbers are *symbolic byte strings*: marker bytes that stand for z3 String terms
(lib/zsym registry), so that the real `os.path.join`, `sorted`, `+`, `b"".join` run
natively and the markers are resolved to terms when the bytes reach the hasher.
These module globals of bob.utils are re-bound for the duration:

    os (scandir/readlink -> stub directory), open (stub file), stat (S_IS* on a
    symbolic mode of concrete type), struct (pack of a symbolic mode / device number),
    hashlib (records the pre-image, returns a fresh 20 byte symbol), len (non-emptiness
    probe of a read buffer), hashFile (the real function with the recording hasher as
    its `hasher` argument - its default was bound to the real sha1 at import time).

SHA-1 is modelled as an injective function on the finitely many pre-images of a query:
for all recorded (digest symbol d_i, pre-image p_i):  d_i == d_j  <=>  p_i == p_j.

Query (must be unsat) for every pair of shapes (A, B):
    top digest of A == top digest of B   and   the trees differ
where "differ" = different number of entries, or some entry (in hashing order) differs in
type, one of the 12 permission bits, name, content / link target / device number, or
recursively in the sub-directory.  Names are arbitrary byte strings without NUL and '/',
non-empty; listing order is NOT constrained (superset of the sorted order Bob uses).

A sat model is turned into two real directories (mkfifo/mknod/symlink/chmod) and hashed
by the unmodified code with the real hashlib; only a reproducing model is a violation.
"""
import functools
import hashlib as real_hashlib
import itertools
import os as real_os
import random
import shutil
import stat as real_stat
import struct as real_struct
import tempfile

import z3

from lib import V, zsym
from lib.zsym import const_term

import bob.utils as U

ENCODED = ['bob.utils.DirHasher.hashDirectory', 'bob.utils.DirHasher.__hashDir', 'bob.utils.DirHasher.__hashEntry',
           'bob.utils.DirHasher.__hashLink', 'bob.utils.DirHasher.NullIndex.check', 'bob.utils.hashFile']
STUBS = ['os.scandir / DirEntry / os.readlink -> stub directory with symbolic names, targets',
         'open -> stub file returning the whole symbolic content in one read',
         'stat.S_IS* -> concrete type of a symbolic mode; struct.pack("=L"/"<L") of symbolic mode / rdev -> 4 symbolic bytes',
         'hashlib.sha1 -> pre-image recorder returning a fresh 20 byte symbol; len(read buffer) -> non-emptiness probe']
ASSUMPTIONS = ['SHA-1 is an injective function (pairwise axioms over the recorded pre-images)',
               'st_mode = one of the 7 POSIX file types | 12 permission bits; names contain neither NUL nor "/" and are non-empty',
               'a file content is delivered by one read() (hashFile chunking is not exercised); an empty content hashes as no update']

TYPES = {'reg': real_stat.S_IFREG, 'dir': real_stat.S_IFDIR, 'lnk': real_stat.S_IFLNK, 'fifo': real_stat.S_IFIFO,
         'chr': real_stat.S_IFCHR, 'blk': real_stat.S_IFBLK, 'sock': real_stat.S_IFSOCK}
NAME_MAX = 4
DATA_MAX = 3

_BYTE = z3.Range(const_term(b'\x00'), const_term(b'\xff'))
_NAMECH = z3.Union(z3.Range(const_term(b'\x01'), const_term(b'\x2e')), z3.Range(const_term(b'\x30'), const_term(b'\xff')))


def marker(term, length):
    return zsym._register(term, length).encode('utf8')


class Sym:
    """factory of the symbolic inputs of one tree"""

    def __init__(self, prefix):
        self.prefix = prefix
        self.cons = []
        self.n = 0

    def fresh(self, kind):
        self.n += 1
        return z3.String('%s_%s%d' % (self.prefix, kind, self.n))

    def name(self):
        t = self.fresh('name')
        self.cons += [z3.Length(t) >= 1, z3.Length(t) <= NAME_MAX, z3.InRe(t, z3.Plus(_NAMECH))]
        return t

    def data(self, kind='data'):
        t = self.fresh(kind)
        self.cons += [z3.Length(t) <= DATA_MAX, z3.InRe(t, z3.Star(_BYTE))]
        return t

    def fixed(self, kind, n):
        t = self.fresh(kind)
        self.cons += [z3.Length(t) == n, z3.InRe(t, z3.Star(_BYTE))]
        return t

    def perm(self):
        self.n += 1
        lo = z3.Int('%s_plo%d' % (self.prefix, self.n))
        hi = z3.Int('%s_phi%d' % (self.prefix, self.n))
        self.cons += [lo >= 0, lo < 256, hi >= 0, hi < 16]
        return lo, hi


class SymMode:
    def __init__(self, typ, lo, hi):
        self.typ, self.lo, self.hi = typ, lo, hi

    def term(self):
        return z3.Concat(z3.StrFromCode(self.lo), z3.StrFromCode(self.hi + (TYPES[self.typ] >> 8)), const_term(b'\x00\x00'))


class SymRdev:
    def __init__(self, term):
        self.term = term


class Entry:
    def __init__(self, typ, sym, children=None):
        self.typ = typ
        self.name = sym.name()
        self.lo, self.hi = sym.perm()
        self.mode = SymMode(typ, self.lo, self.hi)
        self.name_m = marker(self.name, z3.Length(self.name))
        self.payload = None
        if typ == 'reg':
            self.payload = sym.data('content')
        elif typ == 'lnk':
            self.payload = sym.data('target')     # link texts: non-empty, no NUL
            sym.cons += [z3.Length(self.payload) >= 1, z3.InRe(self.payload, z3.Star(z3.Range(const_term(b'\x01'), const_term(b'\xff'))))]
        elif typ in ('chr', 'blk'):
            self.payload = sym.fixed('rdev', 4)
        self.children = children


def build(shape, sym):
    """shape = tuple of type names or ('dir', subshape)"""
    out = []
    for s in shape:
        if isinstance(s, tuple):
            out.append(Entry('dir', sym, build(s[1], sym)))
        else:
            out.append(Entry(s, sym, [] if s == 'dir' else None))
    return out


# ------------------------------------------------------------ stub world ----
class _St:
    def __init__(self, e):
        self.st_mode = e.mode
        self.st_size = 0
        self.st_rdev = SymRdev(e.payload) if e.typ in ('chr', 'blk') else 0


class _DirEntry:
    def __init__(self, e):
        self.e = e
        self.name = e.name_m

    def is_dir(self, follow_symlinks=True):
        assert follow_symlinks is False
        return self.e.typ == 'dir'

    def stat(self, follow_symlinks=True):
        assert follow_symlinks is False
        return _St(self.e)


class _Scan:
    def __init__(self, entries):
        self.entries = entries

    def __enter__(self):
        return iter([_DirEntry(e) for e in self.entries])

    def __exit__(self, *a):
        return False


class World:
    ROOT = b'/T'

    def __init__(self, entries):
        self.dirs = {}
        self.files = {}
        self.links = {}
        self._add(self.ROOT, entries)
        self.hashes = []       # (digest term, pre-image term)

    def _add(self, path, entries):
        self.dirs[path] = entries
        for e in entries:
            p = path + b'/' + e.name_m
            if e.typ == 'dir':
                self._add(p, e.children)
            elif e.typ == 'reg':
                self.files[p] = e
            elif e.typ == 'lnk':
                self.links[p] = e

    # os
    def scandir(self, path):
        if path.endswith(b'/.'):
            path = path[:-2]
        if path not in self.dirs:
            raise V.HarnessGap('scandir of unknown path %r' % path)
        return _Scan(self.dirs[path])

    def readlink(self, path):
        e = self.links[path]
        return marker(e.payload, z3.Length(e.payload))

    def open(self, path, mode='r', buffering=-1):
        assert mode == 'rb'
        return _File(self.files[path])


class _File:
    def __init__(self, e):
        self.chunks = [_ReadBuf(marker(e.payload, z3.Length(e.payload)))]

    def __enter__(self):
        return self

    def __exit__(self, *a):
        return False

    def read(self, n=-1):
        return self.chunks.pop(0) if self.chunks else b''


class _ReadBuf(bytes):
    pass


def c11len(x):
    if isinstance(x, _ReadBuf):
        return 1            # "there was data": update(b'') of an empty content is a no-op
    return len(x)


class _FakeStat:
    def __getattr__(self, k):
        if k.startswith('S_IS'):
            want = {'S_ISREG': 'reg', 'S_ISDIR': 'dir', 'S_ISLNK': 'lnk', 'S_ISFIFO': 'fifo', 'S_ISCHR': 'chr',
                    'S_ISBLK': 'blk', 'S_ISSOCK': 'sock'}[k]
            return lambda m: m.typ == want
        return getattr(real_stat, k)


class _FakeStruct:
    @staticmethod
    def pack(fmt, *vals):
        if len(vals) == 1 and isinstance(vals[0], SymMode) and fmt in ('=L', '<L', '=I', '<I'):
            return marker(vals[0].term(), 4)
        if len(vals) == 1 and isinstance(vals[0], SymRdev) and fmt in ('=L', '<L', '=I', '<I'):
            return marker(vals[0].term, 4)
        if len(vals) == 1 and isinstance(vals[0], SymMode) and fmt in ('=H', '<H'):
            m = vals[0]
            return marker(z3.Concat(z3.StrFromCode(m.lo), z3.StrFromCode(m.hi + (TYPES[m.typ] >> 8))), 2)
        if any(isinstance(v, (SymMode, SymRdev)) for v in vals):
            raise V.HarnessGap('struct.pack(%r) of a symbolic value: not modelled' % fmt)
        return real_struct.pack(fmt, *vals)

    calcsize = staticmethod(real_struct.calcsize)
    unpack = staticmethod(real_struct.unpack)


class _OsNS:
    def __init__(self, world):
        self.w = world
        self.path = real_os.path
        self.sep = real_os.sep

    def scandir(self, p):
        return self.w.scandir(p)

    def readlink(self, p):
        return self.w.readlink(p)

    def __getattr__(self, k):
        if k in ('fsencode', 'fspath', 'fsdecode'):
            return getattr(real_os, k)
        raise V.HarnessGap('os.%s is not modelled' % k)


def record(entries, sym):
    """run the real hashDirectory on the stub tree -> (top digest term, [(d, pre)])"""
    w = World(entries)

    class _Sha1:
        def __init__(self, data=None):
            self.parts = []
            if data is not None:
                self.update(data)

        def update(self, data):
            self.parts.append(bytes(data))

        def digest(self):
            blob = b''.join(self.parts)
            r = zsym.resym_bytes(blob)
            pre = r[0] if r is not None else const_term(blob)
            d = sym.fixed('sha', 20)
            w.hashes.append((d, pre))
            return marker(d, 20)

    class _Hashlib:
        sha1 = _Sha1

    real_hashFile = U.hashFile
    saved = {k: U.__dict__.get(k, zsym._MISSING) for k in ('os', 'open', 'stat', 'struct', 'hashlib', 'len', 'hashFile')}
    U.os, U.open, U.stat, U.struct, U.hashlib, U.len = _OsNS(w), w.open, _FakeStat(), _FakeStruct, _Hashlib, c11len
    U.hashFile = functools.partial(real_hashFile, hasher=_Sha1)
    try:
        top = U.DirHasher().hashDirectory(World.ROOT.decode())
    finally:
        for k, v in saved.items():
            if v is zsym._MISSING:
                U.__dict__.pop(k, None)
            else:
                U.__dict__[k] = v
    r = zsym.resym_bytes(top)
    if r is None:
        raise V.HarnessGap('top digest is not symbolic: %r' % top)
    return r[0], w.hashes


def sha_axioms(hashes):
    ax = []
    for (d1, p1), (d2, p2) in itertools.combinations(hashes, 2):
        ax.append((d1 == d2) == (p1 == p2))
    return ax


def entries_equal(a, b):
    if len(a) != len(b):
        return z3.BoolVal(False)
    cs = []
    for x, y in zip(a, b):
        if x.typ != y.typ:
            return z3.BoolVal(False)
        cs += [x.name == y.name, x.lo == y.lo, x.hi == y.hi]
        if x.payload is not None:
            cs.append(x.payload == y.payload)
        if x.typ == 'dir':
            cs.append(entries_equal(x.children, y.children))
    return z3.And(cs) if cs else z3.BoolVal(True)


# ------------------------------------------------------------ concrete ----
def concretize(entries, model):
    def mb(t):
        return zsym.model_bytes(model, t)
    out = []
    for e in entries:
        perm = model.eval(e.lo, model_completion=True).as_long() + 256 * model.eval(e.hi, model_completion=True).as_long()
        out.append({'type': e.typ, 'name': mb(e.name), 'perm': perm,
                    'payload': mb(e.payload) if e.payload is not None else None,
                    'children': concretize(e.children, model) if e.typ == 'dir' else None})
    return out


def materialize(root, tree):
    """create the concrete tree in a real directory (needs root for device nodes)"""
    for e in tree:
        p = real_os.path.join(real_os.fsencode(root), e['name'])
        t = e['type']
        if t == 'reg':
            with open(p, 'wb') as f:
                f.write(e['payload'])
        elif t == 'dir':
            real_os.mkdir(p)
            materialize(p, e['children'])
        elif t == 'lnk':
            real_os.symlink(e['payload'], p)
            continue        # permission bits of symlinks cannot be set on Linux
        elif t == 'fifo':
            real_os.mkfifo(p)
        elif t in ('chr', 'blk'):
            real_os.mknod(p, TYPES[t] | 0o600, int.from_bytes(e['payload'], 'little'))
        elif t == 'sock':
            import socket
            s = socket.socket(socket.AF_UNIX)
            s.bind(p)
            s.close()
        real_os.chmod(p, e['perm'])
    return root


def real_hash(tree, capture=None):
    d = tempfile.mkdtemp(prefix='c11z-', dir='/dev/shm' if real_os.path.isdir('/dev/shm') else None)
    try:
        materialize(d, tree)
        if capture is not None:
            U.hashlib = capture
            real_hf = U.hashFile
            U.hashFile = functools.partial(real_hf, hasher=capture.sha1)
        try:
            return U.hashDirectory(d)
        finally:
            if capture is not None:
                U.hashlib = real_hashlib
                U.hashFile = real_hf
    finally:
        for dp, dn, fn in real_os.walk(d):
            for x in dn:
                try:
                    real_os.chmod(real_os.path.join(dp, x), 0o700)
                except OSError:
                    pass
        shutil.rmtree(d, ignore_errors=True)


def norm(tree):
    """canonical form for comparing two concrete trees (symlink permission bits do not exist on Linux)"""
    return sorted((e['name'], e['type'], None if e['type'] == 'lnk' else e['perm'], e['payload'],
                   norm(e['children']) if e['children'] is not None else None) for e in tree)


class _Capture:
    def __init__(self):
        cap = self
        self.inputs = []

        class H:
            def __init__(self, data=b''):
                self.h = real_hashlib.sha1(data)
                self.buf = bytes(data)

            def update(self, d):
                self.buf += bytes(d)
                self.h.update(d)

            def digest(self):
                cap.inputs.append(self.buf)
                return self.h.digest()
        self.sha1 = H


def validate_translation(shape, rnd):
    """recorded pre-images, evaluated on random concrete values (digest symbols := real SHA-1 of the evaluated
    pre-image), equal the byte strings the unmodified code feeds to the real hashlib on a real directory"""
    del zsym._REG[:]
    sym = Sym('tv')
    entries = build(shape, sym)
    top, hashes = record(entries, sym)
    subst = []

    def assign(es):
        # the recorded run sorts by marker = creation order: give the entries names whose real sort keys
        # (name, directories with a trailing '/') are in that order
        while True:
            names = set()
            while len(names) < len(es):
                n = bytes(rnd.choice([c for c in range(1, 256) if c not in (0x2f, 0x5c)]) for _ in range(rnd.randrange(1, NAME_MAX + 1)))
                if n not in (b'.', b'..', b'.git', b'.svn'):
                    names.add(n)
            names = sorted(names)
            keys = [n + (b'/' if e.typ == 'dir' else b'') for n, e in zip(names, es)]
            if keys == sorted(keys):
                break
        for e, n in zip(es, names):
            subst.append((e.name, const_term(n)))
            # keep directories listable and symlinks at their fixed mode
            perm = 0o777 if e.typ == 'lnk' else (rnd.randrange(4096) | (0o700 if e.typ == 'dir' else 0))
            subst.append((e.lo, z3.IntVal(perm & 255)))
            subst.append((e.hi, z3.IntVal(perm >> 8)))
            if e.payload is not None:
                if e.typ in ('chr', 'blk'):
                    b = real_struct.pack('<L', real_os.makedev(rnd.randrange(1, 200), rnd.randrange(200)))
                else:
                    b = bytes(rnd.choice([c for c in range(256) if c not in (0, 0x5c)]) for _ in range(rnd.randrange(0, DATA_MAX + 1)))
                    if e.typ == 'lnk' and not b:
                        b = b'x'
                subst.append((e.payload, const_term(b)))
            if e.typ == 'dir':
                assign(e.children)
    assign(entries)

    class M:
        def eval(self, t, model_completion=True):
            return z3.simplify(z3.substitute(t, *subst))
    # digest symbols: evaluate inner-most first (recorded in completion order)
    want = []
    for d, pre in hashes:
        b = zsym._unescape(z3.simplify(z3.substitute(pre, *subst)).as_string())
        want.append(b)
        subst.append((d, const_term(real_hashlib.sha1(b).digest())))
    tree = concretize(entries, M())
    cap = _Capture()
    real_hash(tree, cap)
    got = [b for b in cap.inputs]
    # empty files: the real code performs no update -> same pre-image b''
    if sorted(want) != sorted(got):
        raise V.HarnessGap('translator validation failed for %r:\n recorded %r\n real     %r' % (shape, sorted(want), sorted(got)))
    return 1


# ------------------------------------------------------------ plan ----
def shapes_for(tier):
    leaf = ['reg', 'dir', 'lnk', 'fifo', 'chr', 'sock']
    one = [(t,) for t in leaf]
    two = [(a, b) for a in leaf for b in leaf]
    nested = [(('dir', ('reg',)),), (('dir', ('lnk',)),), (('dir', ('reg', 'dir')),), ('reg', ('dir', ('reg',)))]
    if tier == 'quick':
        two = [(a, b) for a in ('reg', 'dir', 'fifo', 'chr') for b in ('reg', 'dir', 'lnk', 'fifo')]
        return [()] + one + two + nested[:2]
    three = [(a, b, c) for a in ('reg', 'dir', 'fifo', 'chr') for b in ('reg', 'fifo', 'lnk') for c in ('reg', 'dir', 'fifo')]
    return [()] + one + two + three + nested + [(('dir', (('dir', ('reg',)),)),)]


def first_type(s):
    return None if not s else ('dir' if isinstance(s[0], tuple) else s[0])


def pairs_for(tier, shapes):
    out = []
    for i, a in enumerate(shapes):
        for b in shapes[i:]:
            # different first types: one representative pair per type combination is enough in the quick tier
            if tier == 'quick' and first_type(a) != first_type(b) and (len(a) > 1 or len(b) > 1):
                continue
            out.append((a, b))
    return out


def GROUPS(tier):
    n = 6 if tier == 'quick' else 12
    return ([{'group': 'dirblob-%d/%d' % (i, n), 'timeout': 900 if tier == 'quick' else 3000} for i in range(n)] +
            [{'group': 'lemma-%d/%d' % (i, n), 'timeout': 900 if tier == 'quick' else 3000} for i in range(n)])


def RUN(group, tier, Q):
    k, n = (int(x) for x in group.split('-')[1].split('/'))
    rnd = random.Random(17 + k)
    Q.per_query_ms = 30000 if tier == 'quick' else 120000
    if group.startswith('lemma-'):
        return run_lemma(tier, Q, k, n)
    shapes = shapes_for(tier)
    if k == 0:
        tv = 0
        for s in shapes:
            if s:
                tv += validate_translation(s, rnd)
        Q.validation = {'shapes': len(shapes), 'real_directories_agreeing': tv}
    pairs = pairs_for(tier, shapes)
    for idx, (sa, sb) in enumerate(pairs):
        if idx % n != k:
            continue
        del zsym._REG[:]
        xa, xb = Sym('a'), Sym('b')
        ea, eb = build(sa, xa), build(sb, xb)
        ta, ha = record(ea, xa)
        tb, hb = record(eb, xb)
        name = 'dirhash %r vs %r' % (sa, sb)
        r, model = Q.check(name, xa.cons + xb.cons + sha_axioms(ha + hb) + [ta == tb, z3.Not(entries_equal(ea, eb))],
                           'unsat', shape=(repr(sa), repr(sb)))
        if r == 'sat':
            ca, cb = concretize(ea, model), concretize(eb, model)
            try:
                da, db = real_hash(ca), real_hash(cb)
                rep = da == db and norm(ca) != norm(cb)
                err = None
            except (OSError, ValueError) as e:
                da = db = b''
                rep, err = False, repr(e)
            Q.violation('two different trees have the same directory hash: %r / %r -> %s' % (ca, cb, da.hex()),
                        'dirhash|%r|%r' % (sa, sb), {'a': repr(ca), 'b': repr(cb), 'hash_a': da.hex(), 'hash_b': db.hex(),
                                                     'error': err}, rep)
        if len(Q.samples) < 3:
            Q.sample({'query': name, 'result': r})


# ------------------------------------------------- step lemma, array encoding ----
# The sequence theory does not finish the word equations once names may be long
# (z3 5.1 and cvc5 1.0: unknown at 60 s for names <= 32).  For the *step lemma*
#
#     enc(e) . s == enc(e') . s'   ==>   e == e'  and  s == s'
#     (s, s' = empty or  <valid mode: lo hi 00 00> . <any bytes>  -- what follows an entry in a blob)
#
# the recorded pre-image term of the one-entry shape (= enc(e), from the real code) is lowered
# mechanically into a bounded array encoding: the common blob is a function f: Int -> Int, every
# piece of the recorded concatenation gets an offset expression, a constant piece fixes f at its
# positions, str.from_code(v) fixes one position to v, a symbolic string x gets a length variable
# within its declared bounds and its character class on positions < length (ground, up to the
# maximal length).  Equality of two symbolic strings = equal lengths and equal bytes.  By induction
# over the entry list the lemma gives unique decodability of a blob with any number of entries
# (the induction is a paper argument; n, m <= 2..3 is also decided directly for short names).
LEMMA_NAME_MAX = 255


class Lower:
    def __init__(self, tag, f, meta):
        self.tag, self.f, self.meta = tag, f, meta
        self.cons = []
        self.pos = {}       # var name -> (offset, length expr, maxlen)

    def _walk(self, t):
        if z3.is_app_of(t, z3.Z3_OP_SEQ_CONCAT):
            for c in t.children():
                yield from self._walk(c)
        else:
            yield t

    def lower(self, term, start=0):
        off = start
        for piece in self._walk(term):
            if z3.is_string_value(piece):
                data = zsym._unescape(piece.as_string())
                for i, b in enumerate(data):
                    self.cons.append(self.f(off + i) == b)
                off = off + len(data)
            elif piece.decl().kind() == z3.Z3_OP_STRING_FROM_CODE if hasattr(z3, 'Z3_OP_STRING_FROM_CODE') else piece.decl().name() == 'str.from_code':
                v = piece.arg(0)
                self.cons.append(self.f(off) == v)
                off = off + 1
            elif z3.is_const(piece) and piece.decl().kind() == z3.Z3_OP_UNINTERPRETED:
                name = piece.decl().name()
                lo, hi, cls = self.meta[name]
                ln = z3.Int('len_' + name)
                self.cons += [ln >= lo, ln <= hi]
                for i in range(hi):
                    b = self.f(off + i)
                    ok = z3.And(b >= 0, b <= 255) if cls == 'byte' else z3.And(b >= 1, b <= 255, b != 0x2f)
                    self.cons.append(z3.Implies(ln > i, ok) if i >= lo else ok)
                self.pos[name] = (off, ln, hi)
                off = off + ln
            else:
                raise V.HarnessGap('lowering: unsupported piece %s' % piece.sexpr()[:80])
        return off

    def tail(self, end, total, t):
        """what follows an entry in a blob: nothing (t None), or another entry of type t *as the real code encodes
        it* (recorded, fresh symbols) followed by arbitrary bytes"""
        if t is None:
            self.cons.append(total == end)
            return
        sym = Sym('%s_t%s' % (self.tag, t))
        es = build((t,), sym)
        _, hs = record(es, sym)
        # the follower's name is modelled by its first byte only (the rest of it is part of the arbitrary bytes:
        # an over-approximation, sound for unsat)
        lw = Lower(self.tag + '_t' + t, self.f, entry_meta(es[0], hs, 1))
        e2 = lw.lower(hs[-1][1], end)
        x = es[0]
        self.cons += lw.cons + [x.lo >= 0, x.lo < 256, x.hi >= 0, x.hi < 16, total >= e2]


ALL_TYPES = ['reg', 'dir', 'lnk', 'fifo', 'chr', 'blk', 'sock']


def entry_meta(e, hashes, name_max):
    m = {e.name.decl().name(): (1, name_max, 'name')}
    for d, _ in hashes:
        m[d.decl().name()] = (20, 20, 'byte')
    if e.typ in ('chr', 'blk'):
        m[e.payload.decl().name()] = (4, 4, 'byte')
    return m


def var_equal(la, na, lb, nb):
    (oa, lena, ma), (ob, lenb, mb) = la.pos[na], lb.pos[nb]
    f = la.f
    m = min(ma, mb)
    return z3.And([lena == lenb] + [z3.Implies(lena > i, f(oa + i) == f(ob + i)) for i in range(m)])


def lemma_query(ta, tb, name_max, tta=None, ttb=None):
    """-> (assertions, describe(model)) for the step lemma of entry types ta / tb"""
    global NAME_MAX
    old = NAME_MAX
    NAME_MAX = name_max
    try:
        del zsym._REG[:]
        xa, xb = Sym('a'), Sym('b')
        ea, eb = build((ta,), xa), build((tb,), xb)
        _, ha = record(ea, xa)
        _, hb = record(eb, xb)
        f = z3.Function('blob', z3.IntSort(), z3.IntSort())
        total = z3.Int('total')
        a, b = ea[0], eb[0]
        la, lb = Lower('a', f, entry_meta(a, ha, name_max)), Lower('b', f, entry_meta(b, hb, name_max))
        enda = la.lower(ha[-1][1])
        endb = lb.lower(hb[-1][1])
        la.tail(enda, total, tta)
        lb.tail(endb, total, ttb)
    finally:
        NAME_MAX = old
    perm = [a.lo >= 0, a.lo < 256, a.hi >= 0, a.hi < 16, b.lo >= 0, b.lo < 256, b.hi >= 0, b.hi < 16]
    if ta != tb:
        same = z3.BoolVal(False)
    else:
        cs = [var_equal(la, a.name.decl().name(), lb, b.name.decl().name()), a.lo == b.lo, a.hi == b.hi]
        if ta in ('chr', 'blk'):
            cs.append(var_equal(la, a.payload.decl().name(), lb, b.payload.decl().name()))
        elif len(ha) > 1:
            # SHA-1 injective: payload (content / target / sub-directory blob) equal <=> digests equal
            cs.append(var_equal(la, ha[0][0].decl().name(), lb, hb[0][0].decl().name()))
        same = z3.And(cs)
    asserts = la.cons + lb.cons + perm + [total >= 0, z3.Not(z3.And(same, enda == endb))]

    def describe(model):
        n = model.eval(total, model_completion=True).as_long()
        blob = bytes(model.eval(f(i), model_completion=True).as_long() & 255 for i in range(min(n, 600)))
        lens = [model.eval(l.pos[e.name.decl().name()][1], model_completion=True).as_long() for l, e in ((la, a), (lb, b))]
        return {'blob': blob.hex(), 'end_a': str(model.eval(enda)), 'end_b': str(model.eval(endb)), 'types': [ta, tb],
                'followers': [tta, ttb], 'name_lengths': lens}
    return asserts, describe


def run_lemma(tier, Q, k, n):
    pairs = list(itertools.combinations_with_replacement(ALL_TYPES, 2))
    tails = [None] + ALL_TYPES
    idx = -1
    for (ta, tb) in pairs:
        for tta in tails:
            for ttb in tails:
                idx += 1
                if idx % n != k:
                    continue
                asserts, describe = lemma_query(ta, tb, LEMMA_NAME_MAX, tta, ttb)
                name = 'step-lemma %s+%s / %s+%s names<=%d' % (ta, tta, tb, ttb, LEMMA_NAME_MAX)
                r, model = Q.check(name, asserts, 'unsat', shape=('lemma', ta, tb, tta, ttb))
                if r == 'sat':
                    d = describe(model)
                    Q.violation('an entry of a directory blob does not decode uniquely (%s / %s): %r' % (ta, tb, d),
                                'dirhash-lemma|%s|%s' % (ta, tb), d, realise_lemma_model(ta, tb, d))
                if len(Q.samples) < 4:
                    Q.sample({'query': name, 'result': r})


_REALISE = [0]


def realise_lemma_model(ta, tb, desc):
    """turn a lemma counterexample into two different REAL trees with equal hash: a direct sequence-theory query for the
    shapes (entry, follower) of the model with names up to 8 bytes (10 s; at most two attempts per query group -- the
    model's own long names are out of reach of the sequence solver); only a pair that the unmodified code hashes equally
    in real directories counts"""
    global NAME_MAX
    _REALISE[0] += 1
    if _REALISE[0] > 2:
        return False
    tta, ttb = desc['followers']
    sa = (ta,) + ((tta,) if tta else ())
    sb = (tb,) + ((ttb,) if ttb else ())
    old = NAME_MAX
    NAME_MAX = 8
    try:
        del zsym._REG[:]
        xa, xb = Sym('a'), Sym('b')
        ea, eb = build(sa, xa), build(sb, xb)
        t1, ha = record(ea, xa)
        t2, hb = record(eb, xb)
    finally:
        NAME_MAX = old
    s = z3.Solver()
    s.set('timeout', 10000)
    s.add(xa.cons + xb.cons + sha_axioms(ha + hb) + [t1 == t2, z3.Not(entries_equal(ea, eb))])
    if str(s.check()) != 'sat':
        return False
    ca, cb = concretize(ea, s.model()), concretize(eb, s.model())
    try:
        da, db = real_hash(ca), real_hash(cb)
    except (OSError, ValueError):
        return False
    desc['tree_a'], desc['tree_b'], desc['hash'] = repr(ca), repr(cb), da.hex()
    return da == db and norm(ca) != norm(cb)


BOUNDS = ('direct queries: <= 2 (thorough 3) entries per directory and side, 6 entry types, one nesting level (thorough two), names 1..%d bytes, '
          'contents / targets 0..%d bytes, 12 permission bits, 32 bit device numbers; step lemma: 7 types x 7 types, followed by nothing or any of 7 types, '
          'names 1..%d bytes' % (NAME_MAX, DATA_MAX, LEMMA_NAME_MAX))

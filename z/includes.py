"""Engine Z module: digest of included files (C02, "every edit that changes what a step executes or
consumes changes its Variant-Id").

The real bob.languages.IncludeResolver.__getitem__ / resolve (through BashResolver) run on files whose
contents are symbolic byte strings (lib.zsym markers); glob, the file loader and hashlib are re-bound.
For the three include syntaxes  $<<p>>  (one file with the concatenation),  $<@p@>  (one file per match)
and  $<'p'>  (literal with the concatenation) and n matched files per side:

    what the script sees differs (the sequence of files for '@', the concatenation otherwise)
    and the recorded pre-images of the include digests are equal            -> unsat expected

A model is replayed through the real resolver with the real hashlib on real files (equal digest part,
different resolved script) and through a real one-recipe project (equal Variant-Id).
"""
import itertools
import os
import shutil
import sys
import tempfile

import z3

from lib import V
sys.path.insert(0, V.REPO + '/pym')
import bob.languages as BL
from lib import zsym
from lib.zsym import const_term, model_bytes

ENCODED = ['bob.languages.IncludeResolver.__getitem__', 'bob.languages.IncludeResolver.resolve', 'bob.languages.IncludeResolver._includeFiles',
           'bob.languages.BashResolver._includeFile']
STUBS = ['glob -> fixed list of paths; file loader -> symbolic contents; hashlib.sha1 -> pre-image recorder whose hex digest is a symbol']
ASSUMPTIONS = ['SHA-1 is injective']
BOUNDS = '1..2 (thorough 3) matched files per side, contents 0..3 bytes, the three include syntaxes'

MODES = ['<', '@', "'"]


class _Rec:
    def __init__(self):
        self.pres = []

    def hashlib(self):
        rec = self

        class D:
            def __init__(self, pre):
                self.pre = pre

            def hex(self):
                t = z3.String('hex%d' % len(zsym._REG))
                rec.pres.append(self.pre)
                return zsym._register(t, 40)

        class S:
            def __init__(self, data=b''):
                self.buf = bytes(data)

            def update(self, d):
                self.buf += bytes(d)

            def digest(self):
                r = zsym.resym_bytes(self.buf)
                return D(r[0] if r is not None else const_term(self.buf))

        class H:
            sha1 = S
        return H


def run_real(mode, contents, hashlib_mod, base='/inc'):
    """the real resolver on the given list of file contents -> (resolved script, digest string)"""
    paths = [os.path.join(base, 'f%d' % i) for i in range(len(contents))]
    table = dict(zip(paths, contents))
    saved = (BL.glob, BL.hashlib)
    BL.glob = lambda pattern: list(reversed(paths))
    BL.hashlib = hashlib_mod
    try:
        res = BL.BashResolver(lambda p: table[p], base, 'orig', 'recipe.yaml', 'v')
        inc = res[mode + 'f*']
        return res.resolve('run ' + inc), inc
    finally:
        BL.glob, BL.hashlib = saved


def GROUPS(tier):
    return [{'group': 'include-digest', 'timeout': 600 if tier == 'quick' else 1800}]


def RUN(group, tier, Q):
    import hashlib
    Q.per_query_ms = 20000
    nmax = 2 if tier == 'quick' else 3
    for mode in MODES:
        for nx, ny in itertools.combinations_with_replacement(range(1, nmax + 1), 2):
            del zsym._REG[:]
            cons = []

            def files(prefix, n):
                out = []
                for i in range(n):
                    t = z3.String('%s_c%d' % (prefix, i))
                    cons.append(z3.Length(t) <= 3)
                    cons.append(z3.InRe(t, z3.Star(z3.Range(const_term(b'\x00'), const_term(b'\xff')))))
                    out.append(t)
                return out
            fx, fy = files('x', nx), files('y', ny)
            rx, ry = _Rec(), _Rec()
            run_real(mode, [zsym._register(t, z3.Length(t)).encode('utf8') for t in fx], rx.hashlib())
            run_real(mode, [zsym._register(t, z3.Length(t)).encode('utf8') for t in fy], ry.hashlib())
            if len(rx.pres) != 2 or len(ry.pres) != 2:
                raise V.HarnessGap('expected two include digests, got %d / %d' % (len(rx.pres), len(ry.pres)))
            same_digest = z3.And([a == b for a, b in zip(rx.pres, ry.pres)])
            if mode == '@':
                seen_differ = z3.BoolVal(True) if nx != ny else z3.Or([a != b for a, b in zip(fx, fy)])
            else:
                cat = lambda ts: ts[0] if len(ts) == 1 else z3.Concat(*ts)
                seen_differ = cat(fx) != cat(fy)
            name = 'include %s %d vs %d files' % (mode, nx, ny)
            r, model = Q.check(name, cons + [same_digest, seen_differ], 'unsat', shape=(mode, nx, ny))
            if r == 'sat':
                cx = [model_bytes(model, t) for t in fx]
                cy = [model_bytes(model, t) for t in fy]
                (sx, dx), _ = run_real(mode, cx, hashlib)
                (sy, dy), _ = run_real(mode, cy, hashlib)
                rep = dx == dy and sx != sy
                info = {'digest_part': dx, 'files_x': repr(cx), 'files_y': repr(cy)}
                try:
                    vx, vy = project_vid(mode, cx), project_vid(mode, cy)
                    info['variant_id_x'], info['variant_id_y'] = vx.hex(), vy.hex()
                    rep = rep and vx == vy
                except Exception as e:
                    info['project_replay_error'] = repr(e)
                    rep = False
                sig = 'include-digest|files-concatenated' if mode == '@' else 'include-digest|%s|%d|%d' % (mode, nx, ny)
                Q.violation('the script receives different included files but the include digest (and the Variant-Id) is the same: '
                            '$<%sf*%s> with files %r vs %r' % (mode, {'<': '>', '@': '@', "'": "'"}[mode], cx, cy), sig, info, rep)
            if len(Q.samples) < 3:
                Q.sample({'query': name, 'result': r})


def project_vid(mode, contents):
    """Variant-Id of the build step of a real one-recipe project whose buildScript includes the files"""
    import contextlib
    import io
    from bob.input import RecipeSet
    d = tempfile.mkdtemp(prefix='c02inc-', dir='/dev/shm' if os.path.isdir('/dev/shm') else None)
    cwd = os.getcwd()
    try:
        os.makedirs(os.path.join(d, 'recipes', 'root'))
        with open(os.path.join(d, 'config.yaml'), 'w') as f:
            f.write('bobMinimumVersion: "0.25"\n')
        for i, c in enumerate(contents):
            with open(os.path.join(d, 'recipes', 'root', 'f%d' % i), 'wb') as f:
                f.write(c)
        close = {'<': '>', '@': '@', "'": "'"}[mode]
        with open(os.path.join(d, 'recipes', 'root.yaml'), 'w') as f:
            f.write('root: True\nbuildScript: |\n    cat $<%sroot/f*%s>\npackageScript: "p"\n' % (mode, close))
        os.chdir(d)
        buf = io.StringIO()
        with contextlib.redirect_stderr(buf), contextlib.redirect_stdout(buf):
            rs = RecipeSet()
            rs.parse({})
            packages = rs.generatePackages(lambda s, m: 'unused', False)
            try:
                p = packages.getRootPackage().getDirectDepSteps()[0].getPackage()
                return p.getBuildStep().getVariantId()
            finally:
                packages.close()
    finally:
        os.chdir(cwd)
        shutil.rmtree(d, ignore_errors=True)

"""Engine Z module: script merging (C02, "same script fragments in the same order").

The real bob.input.mergeScripts / bob.utils.joinScripts run on fragments whose texts are
symbolic strings (lib.zsym markers, constrained not to contain the newline glue).  Each
fragment's digest part is an injective token of its text (in the real code the hex
SHA-1 of the text): D(t1) = D(t2) <-> t1 = t2.
Query per pair of placements (which of Setup/Script/Finalize each of two fragments --
class and recipe -- defines):   executed(x) != executed(y)  and  digestScript(x) = digestScript(y)
-> unsat expected.  A model is replayed through the real Recipe pipeline (two mini
projects: class + recipe) with the real hashlib.
"""
import itertools
import sys

import z3

from lib import V
sys.path.insert(0, V.REPO + '/pym')
import bob.input as BI
from lib import zsym
from lib.zsym import SymStr, Vars, model_bytes

ENCODED = ['bob.input.mergeScripts', 'bob.utils.joinScripts']
STUBS = ['fragment digest = injective token of the fragment text (stands for sha1(text).hexdigest(): a newline-free token of fixed length, modelled with length 2; include files absent)']
ASSUMPTIONS = ['fragment texts do not contain the glue character "\\n" (then equality of the merged text is equality of the fragment sequence)']
BOUNDS = 'two fragments (one class + the recipe), every placement of <= 3 non-empty Setup/Script/Finalize parts per side, texts 1..4 chars'

SLOTS = ('Setup', 'Script', 'Finalize')


def placements(maxparts):
    out = []
    for bits in itertools.product([0, 1], repeat=6):
        if 1 <= sum(bits) <= maxparts:
            out.append(bits)
    return out


def instantiate(bits, prefix, v):
    """fragments [((text, D), (text, D), (text, D)), ...] with None for absent parts"""
    frags = []
    texts = []
    for f in range(2):
        parts = []
        for s in range(3):
            if bits[f * 3 + s]:
                t = v.text('%s_f%d_%s' % (prefix, f, SLOTS[s]), maxlen=4)
                v.constraints.append(z3.Not(z3.Contains(t.term, z3.StringVal('\n'))))
                d = v.text('%s_D%d_%s' % (prefix, f, SLOTS[s]), minlen=2, maxlen=2)
                v.constraints.append(z3.Not(z3.Contains(d.term, z3.StringVal('\n'))))
                parts.append((t, d))
                texts.append((t, d))
            else:
                parts.append((None, None))
        frags.append(tuple(parts))
    return frags, texts


def GROUPS(tier):
    return [{'group': 'merge-scripts', 'timeout': 900 if tier == 'quick' else 3000}]


def term_of(x):
    if x is None:
        return zsym.const_term(b'')
    if isinstance(x, SymStr):
        return x.term
    return zsym.resym_text(x)[0]


def replay(bx, by, cx, cy):
    """concrete replay through the real Recipe pipeline: class 'cls' + recipe, build step"""
    from harness.recipe_vars import prepare

    def mk(bits, texts):
        cls, rec = {}, {'inherit': ['cls'], 'packageScript': 'p'}
        it = iter(texts)
        for f, d in ((0, cls), (1, rec)):
            for s in range(3):
                if bits[f * 3 + s]:
                    d['build' + SLOTS[s]] = next(it)
        pkg = prepare(rec, {'cls': cls}, {})
        st = pkg.getBuildStep()
        return st.getVariantId(), (st.getSetupScript(), st.getMainScript() if hasattr(st, 'getMainScript') else st.getScript())
    vx, ex = mk(bx, cx)
    vy, ey = mk(by, cy)
    return vx == vy and ex != ey, {'variant_id': vx.hex(), 'executed_x': repr(ex), 'executed_y': repr(ey)}


def RUN(group, tier, Q):
    Q.per_query_ms = 20000
    pls = placements(2 if tier == 'quick' else 3)
    pairs = [(a, b) for a, b in itertools.combinations_with_replacement(pls, 2)]
    for (bx, by) in pairs:
        v = Vars('m', 4)
        fx, tx = instantiate(bx, 'x', v)
        fy, ty = instantiate(by, 'y', v)
        sx, mx, dx = BI.mergeScripts(fx, "\n")
        sy, my, dy = BI.mergeScripts(fy, "\n")
        from bob.utils import joinScripts
        ex = joinScripts([sx, mx], "\n")
        ey = joinScripts([sy, my], "\n")
        inj = []
        allt = tx + ty
        for (t1, d1), (t2, d2) in itertools.combinations(allt, 2):
            inj.append((d1.term == d2.term) == (t1.term == t2.term))
        name = 'merge %s vs %s' % (''.join(map(str, bx)), ''.join(map(str, by)))
        r, model = Q.check(name, v.constraints + inj + [term_of(ex) != term_of(ey), term_of(dx) == term_of(dy)],
                           'unsat', shape=(bx, by))
        if r == 'sat':
            cx = [model_bytes(model, t.term).decode('latin-1') for t, _ in tx]
            cy = [model_bytes(model, t.term).decode('latin-1') for t, _ in ty]
            nfin = max(bx[2] + bx[5], by[2] + by[5])
            sig = 'merge-scripts|finalize-order' if nfin >= 2 else 'merge-scripts|%s|%s' % (bx, by)
            try:
                rep, info = replay(bx, by, cx, cy)
            except Exception as e:
                rep, info = False, {'replay_error': repr(e)}
            Q.violation('different executed script sequences, same Variant-Id: placement %s texts %r vs placement %s texts %r (%s)'
                        % (desc(bx), cx, desc(by), cy, info), sig, {'x': [bx, cx], 'y': [by, cy], 'info': info}, rep)
        if len(Q.samples) < 2:
            Q.sample({'query': name, 'result': r})


def desc(bits):
    out = []
    for f, who in ((0, 'class'), (1, 'recipe')):
        parts = [SLOTS[s] for s in range(3) if bits[f * 3 + s]]
        if parts:
            out.append('%s{%s}' % (who, ','.join(parts)))
    return '+'.join(out)

"""Engine Z module: Variant-Id / Build-Id pre-images (C02, C03, C07).

The real bob.input.CoreStep.getDigest and bob.intermediate.StepIR.getDigestCoro are
executed on duck-typed steps whose strings are z3 terms (lib.zsym); the byte string
they feed into SHA-1 is recorded as a z3 sequence term per *shape* (numbers of
tools/libs/variables/arguments are concrete, every string content and length is
symbolic).  z3 then decides:
  collision         pre(x) = pre(y)  and  relevant(x) != relevant(y)        -> unsat expected
  non-interference  relevant(x) = relevant(y)  and  pre(x) != pre(y)        -> unsat expected
  equivalence       pre_CoreStep(x) != pre_StepIR(x), pre_real(x) != pre_spec(x)
A sat answer is turned into concrete steps and replayed on the unpatched functions
with the real hashlib before it is reported.
"""
import random
import sys
import itertools

import z3

from lib import V
sys.path.insert(0, V.REPO + '/pym')
import bob.input as BI
import bob.intermediate as BIR
from lib import zsym
from lib.zsym import SymBytes, SymStr, Vars, Recorder, differ, preimage_equal, model_bytes
from specs import digest_spec

ENCODED = ['bob.input.CoreStep.getDigest', 'bob.input.DigestHasher.update', 'bob.input.DigestHasher.fingerprint',
           'bob.input.DigestHasher.digest', 'bob.input.DigestHasher.sliceRecipes', 'bob.input.DigestHasher.sliceHost',
           'bob.intermediate.StepIR.getDigestCoro']
STUBS = ['steps/tools/arguments are duck-typed stubs offering exactly the attributes the digest functions read',
         'len/struct/hashlib/bytearray of bob.input and bob.intermediate re-bound to the symbolic recorders',
         'ids of dependency steps are arbitrary symbolic 20/40 byte strings (calculate() is a table)']
ASSUMPTIONS = ['SHA-1 is injective (collision freedom): ids are compared by their pre-images',
               'strings are ASCII (len(s) == len(s.encode())), every length < 256 so that pack("<I",n) = chr(n)+3 NUL']
BOUNDS = ('<= 2 tools with <= 2 libs each, <= 2 variables, <= 2 arguments (valid/invalid, 20/40 byte ids), strings 1..5 chars '
          '(quick: same-shape pairs and single-count neighbours of a covering shape set; thorough: all shape pairs in the bound)')

TEXT_MAX = 5


# ------------------------------------------------------------------ stubs ----
class Dest:
    """a core step that is referenced: only its id matters"""

    def __init__(self, did, valid=True):
        self.did = did
        self.isValid = valid


class Ref:
    def __init__(self, dest):
        self.dest = dest

    def refGetDestination(self):
        return self.dest


class Tool:
    def __init__(self, dest, path, libs):
        self.coreStep = dest
        self.path = path
        self.libs = libs


class Sandbox:
    def __init__(self, dest):
        self.coreStep = dest


class CoreStub:
    def __init__(self, script, tools, digestEnv, args, fingerprinted=False, sandbox=None, env=None):
        self.script = script
        self.tools = tools
        self.digestEnv = digestEnv
        self.env = env if env is not None else dict(digestEnv)
        self.args = args
        self.fp = fingerprinted
        self.sandbox = sandbox

    def isFingerprinted(self):
        return self.fp

    def getSandbox(self):
        return self.sandbox

    def getDigestScript(self):
        return self.script

    def getTools(self):
        return self.tools


def core_pre(stub):
    return BI.CoreStep.getDigest(stub, lambda d: d.did)


# IR flavour -------------------------------------------------------------------
class IRDest:
    def __init__(self, did, valid=True):
        self.did = did
        self._valid = valid

    def isValid(self):
        return self._valid


class IRTool:
    def __init__(self, dest, path, libs):
        self.dest, self.path, self.libs = dest, path, libs

    def getStep(self):
        return self.dest

    def getPath(self):
        return self.path

    def getLibs(self):
        return self.libs


class IRSandbox:
    def __init__(self, dest):
        self.dest = dest

    def getStep(self):
        return self.dest


class IRStub:
    def __init__(self, script, tools, digestEnv, args, fingerprinted=False, sandbox=None, weak=()):
        self.script = script
        self.tools = tools
        self.args = args
        self.fp = fingerprinted
        self.sandbox = sandbox
        self._StepIR__data = {'toolKeysWeak': list(weak), 'digestEnv': digestEnv}

    def _isFingerprinted(self):
        return self.fp

    def getSandbox(self):
        return self.sandbox

    def getDigestScript(self):
        return self.script

    def getTools(self):
        return self.tools

    def getArguments(self):
        return self.args


def ir_pre(stub, **kw):
    async def calc(steps):
        return [s.did for s in steps]
    coro = BIR.StepIR.getDigestCoro(stub, calc, **kw)
    try:
        coro.send(None)
    except StopIteration as e:
        return e.value
    raise V.HarnessGap('getDigestCoro suspended')


# ----------------------------------------------------------------- shapes ----
class Shape:
    """(script?, libs per tool, number of variables or 'k' for one symbolic key, args (valid,len), tool id len)"""

    def __init__(self, script=1, tools=(), nenv=0, args=(), fp=False, toollen=20, weak=()):
        self.script, self.tools, self.nenv, self.args, self.fp = script, tuple(tools), nenv, tuple(args), fp
        self.toollen = toollen
        self.weak = tuple(weak)

    def key(self):
        return (self.script, self.tools, self.nenv, self.args, self.fp, self.toollen, self.weak)

    def __repr__(self):
        return 'Shape(script=%s tools=%s env=%s args=%s fp=%s tl=%s weak=%s)' % self.key()


TOOLNAMES = ['ta', 'tb', 'tc']
ENVKEYS = ['KA', 'KB', 'KC']


def instantiate(shape, prefix):
    """fresh symbolic inputs for a shape -> dict of inputs + Vars (constraints)"""
    v = Vars(prefix, TEXT_MAX)
    inp = {}
    inp['script'] = v.text('script') if shape.script else None
    tools = []
    for i, nl in enumerate(shape.tools):
        tools.append((TOOLNAMES[i], v.digest('tool%d_id' % i, shape.toollen), v.text('tool%d_path' % i),
                      [v.text('tool%d_lib%d' % (i, j)) for j in range(nl)]))
    inp['tools'] = tools
    if shape.nenv == 'k':
        inp['env'] = [(v.text('key0', maxlen=3), v.text('val0', minlen=0))]
    else:
        inp['env'] = [(ENVKEYS[i], v.text('val%d' % i, minlen=0)) for i in range(shape.nenv)]
    inp['args'] = [(valid, v.digest('arg%d' % i, n)) for i, (valid, n) in enumerate(shape.args)]
    inp['sandbox'] = v.digest('sbx', 40) if shape.fp else None
    return inp, v


class KeyStr(str):
    """dictionary key that is really symbolic: hashable python object carrying the SymStr"""


def build_core(shape, inp, env_order=1, tool_order=1, extra_env=None, sandbox_unfp=None):
    tools = {}
    for (name, tid, path, libs) in inp['tools'][::tool_order]:
        tools[name] = Tool(Dest(tid), path, libs)
    if shape.nenv == 'k':
        denv = _SymKeyDict(inp['env'])
    else:
        denv = dict(inp['env'][::env_order])
    args = [Ref(Dest(d, valid)) for (valid, d) in inp['args']]
    sb = Sandbox(Dest(inp['sandbox'])) if shape.fp else (Sandbox(Dest(sandbox_unfp)) if sandbox_unfp is not None else None)
    env = dict(denv) if not isinstance(denv, _SymKeyDict) else denv
    if extra_env:
        env = dict(env)
        env.update(extra_env)
    return CoreStub(inp['script'], tools, denv, args, shape.fp, sb, env)


def build_ir(shape, inp, weak=(), **kw):
    tools = {}
    for (name, tid, path, libs) in inp['tools']:
        tools[name] = IRTool(IRDest(tid), path, libs)
    denv = _SymKeyDict(inp['env']) if shape.nenv == 'k' else dict(inp['env'])
    args = [IRDest(d, valid) for (valid, d) in inp['args']]
    sb = IRSandbox(IRDest(inp['sandbox'])) if shape.fp else None
    return IRStub(inp['script'], tools, denv, args, shape.fp, sb, weak)


class _SymKeyDict:
    """digestEnv with one entry whose KEY is symbolic (dict protocol as far as the code uses it)"""

    def __init__(self, items):
        self._items = items

    def items(self):
        return list(self._items)

    def __len__(self):
        return len(self._items)


def relevant(shape, inp, build_id=False):
    """exactly what the statement lists"""
    tools = [(name, SymBytes(z3.SubString(tid.term, 0, 20), 20), path, libs)
             for (name, tid, path, libs) in inp['tools'] if name not in shape.weak]
    weak = [name for (name, _, _, _) in inp['tools'] if name in shape.weak]
    return [inp['script'] if inp['script'] is not None else '',
            [[t[1], t[2], list(t[3])] for t in tools], [t[0] for t in tools], weak,
            [[k, val] for (k, val) in inp['env']],
            [d for (valid, d) in inp['args'] if valid],
            inp['sandbox'] if shape.fp else '']


def rel_differ(sa, ia, sb, ib):
    ra, rb = relevant(sa, ia), relevant(sb, ib)
    return differ(ra, rb)


# ------------------------------------------------------- concrete replay ----
def concretize(shape, inp, model):
    """model -> same structure with python bytes/str"""
    def val(x):
        if isinstance(x, (SymStr,)):
            return model_bytes(model, x.term).decode('latin-1')
        if isinstance(x, SymBytes):
            return model_bytes(model, x.term)
        return x
    out = {'script': val(inp['script']) if inp['script'] is not None else None,
           'tools': [(n, val(t), val(p), [val(l) for l in libs]) for (n, t, p, libs) in inp['tools']],
           'env': [(val(k), val(v_)) for (k, v_) in inp['env']],
           'args': [(valid, val(d)) for (valid, d) in inp['args']],
           'sandbox': val(inp['sandbox']) if inp['sandbox'] is not None else None}
    return out


def real_core_digest(shape, cinp):
    stub = build_core(Shape(shape.script, shape.tools, 0 if shape.nenv == 'k' else shape.nenv, shape.args, shape.fp,
                            shape.toollen), cinp)
    if shape.nenv == 'k':
        stub.digestEnv = dict(cinp['env'])
    return BI.CoreStep.getDigest(stub, lambda d: d.did)


def real_ir_digest(shape, cinp, **kw):
    stub = build_ir(Shape(shape.script, shape.tools, 0 if shape.nenv == 'k' else shape.nenv, shape.args, shape.fp,
                          shape.toollen), cinp, weak=shape.weak)
    if shape.nenv == 'k':
        stub._StepIR__data['digestEnv'] = dict(cinp['env'])
    return ir_pre(stub, **kw)


class CaptureHashlib:
    def __init__(self):
        self.inputs = []
        cap = self

        class _S:
            def __init__(self, data=b''):
                self.buf = bytearray(data)

            def update(self, d):
                self.buf.extend(d)

            def digest(self):
                cap.inputs.append(bytes(self.buf))
                import hashlib
                return hashlib.sha1(bytes(self.buf)).digest()
        self.sha1 = _S


def random_assign(v, rnd):
    """concrete values for all symbolic inputs of a Vars -> z3 substitution list + python values"""
    subst = []
    for name, s in v.items.items():
        if isinstance(s, SymBytes):
            n = s.length
            b = bytes(rnd.choice([c for c in range(256) if c != 0x5c]) for _ in range(n))
        else:
            n = rnd.randrange(1, TEXT_MAX + 1)
            b = bytes(rnd.choice([c for c in range(1, 128) if c != 0x5c]) for _ in range(n))
        subst.append((s.term, zsym.const_term(b)))
    return subst


def eval_term(term, subst):
    t = z3.simplify(z3.substitute(term, *subst))
    return zsym._unescape(t.as_string())


def validate_translation(shape, Q, rnd, kind='core', **kw):
    """recorded term evaluated on random concrete inputs == bytes the real function feeds to the real hashlib"""
    inp, v = instantiate(shape, 'tv')
    with Recorder(BI, BIR):
        pre = core_pre(build_core(shape, inp)) if kind == 'core' else ir_pre(build_ir(shape, inp, weak=shape.weak), **kw)
    ok = 0
    for _ in range(3):
        subst = random_assign(v, rnd)
        model_like = {}
        cinp = {'script': None, 'tools': [], 'env': [], 'args': [], 'sandbox': None}

        def val(x):
            if isinstance(x, SymStr):
                return eval_term(x.term, subst).decode('latin-1')
            if isinstance(x, SymBytes):
                return eval_term(x.term, subst)
            return x
        cinp['script'] = val(inp['script']) if inp['script'] is not None else None
        cinp['tools'] = [(n, val(t), val(p), [val(l) for l in libs]) for (n, t, p, libs) in inp['tools']]
        cinp['env'] = [(val(k), val(x)) for (k, x) in inp['env']]
        cinp['args'] = [(valid, val(d)) for (valid, d) in inp['args']]
        cinp['sandbox'] = val(inp['sandbox']) if inp['sandbox'] is not None else None
        cap = CaptureHashlib()
        for m in (BI, BIR):
            m.hashlib = cap
        try:
            if kind == 'core':
                real_core_digest(shape, cinp)
            else:
                ckw = dict(kw)
                if 'fingerprint' in ckw and isinstance(ckw['fingerprint'], SymBytes):
                    ckw['fingerprint'] = eval_term(ckw['fingerprint'].term, subst)
                real_ir_digest(shape, cinp, **ckw)
        finally:
            import hashlib
            for m in (BI, BIR):
                m.hashlib = hashlib
        want = [eval_term(p.term, subst) for p in pre.pres]
        if want != cap.inputs:
            raise V.HarnessGap('translator validation failed for %r: recorded %r real %r' % (shape, want, cap.inputs))
        ok += 1
    return ok


# ----------------------------------------------------------------- groups ----
def shape_set(tier):
    base = [
        Shape(1, (), 0, ()),
        Shape(0, (), 0, ()),
        Shape(1, (0,), 0, ()),
        Shape(1, (1,), 0, ()),
        Shape(1, (2,), 0, ()),
        Shape(1, (1, 1), 0, ()),
        Shape(1, (), 1, ()),
        Shape(1, (), 2, ()),
        Shape(1, (), 'k', ()),
        Shape(1, (), 0, ((True, 20),)),
        Shape(1, (), 0, ((True, 20), (True, 20))),
        Shape(1, (), 0, ((False, 20), (True, 20))),
        Shape(1, (), 0, ((True, 40),)),
        Shape(1, (1,), 1, ((True, 20),)),
        Shape(1, (), 0, (), fp=True),
        Shape(1, (1,), 0, (), toollen=40),
    ]
    if tier != 'quick':
        base += [Shape(1, (2, 1), 1, ((True, 20),)), Shape(1, (0, 2), 0, ()), Shape(1, (2, 2), 0, ()),
                 Shape(0, (1,), 2, ((True, 40), (True, 20))), Shape(1, (1,), 'k', ((True, 20),)),
                 Shape(1, (1, 1), 2, ((True, 20), (False, 20)), fp=True),
                 Shape(1, (3,), 0, ()), Shape(1, (1, 1, 1), 0, ()), Shape(1, (), 3, ()),
                 Shape(1, (), 0, ((True, 20), (True, 20), (True, 20))), Shape(1, (2, 1), 2, ((True, 20), (True, 40)))]
    return base


def neighbours(shapes, tier):
    pairs = [(s, s) for s in shapes]
    idx = {s.key(): s for s in shapes}
    lst = list(shapes)
    for a, b in itertools.combinations(lst, 2):
        if tier != 'quick':
            pairs.append((a, b))
        else:
            # differ in exactly one component
            d = sum(1 for x, y in zip(a.key(), b.key()) if x != y)
            if d == 1:
                pairs.append((a, b))
    return pairs


def GROUPS(tier):
    return [{'group': 'core-collision', 'timeout': 900 if tier == 'quick' else 3600},
            {'group': 'noninterference', 'timeout': 600 if tier == 'quick' else 1800},
            {'group': 'equivalence', 'timeout': 600 if tier == 'quick' else 1800},
            {'group': 'buildid-collision', 'timeout': 900 if tier == 'quick' else 3600}]


def sigstr(sa, sb, tag):
    return '%s|%s|%s' % (tag, sa.key(), sb.key())


def RUN(group, tier, Q):
    rnd = random.Random(int(V.param('seed', 0) or 0) + 11)
    Q.per_query_ms = 30000 if tier == 'quick' else 120000
    shapes = shape_set(tier)
    if group == 'core-collision':
        tv = 0
        for s in shapes:
            tv += validate_translation(s, Q, rnd, 'core')
        Q.validation = {'shapes': len(shapes), 'concrete_vectors_agreeing': tv}
        for (sa, sb) in neighbours(shapes, tier):
            ia, va = instantiate(sa, 'x')
            ib, vb = instantiate(sb, 'y')
            with Recorder(BI, BIR):
                pa = core_pre(build_core(sa, ia))
                pb = core_pre(build_core(sb, ib))
            name = 'collision %r vs %r' % (sa, sb)
            r, model = Q.check(name, va.constraints + vb.constraints + [preimage_equal(pa, pb), rel_differ(sa, ia, sb, ib)],
                               'unsat', shape=(sa.key(), sb.key()))
            if r == 'sat':
                ca, cb = concretize(sa, ia, model), concretize(sb, ib, model)
                da, db = real_core_digest(sa, ca), real_core_digest(sb, cb)
                Q.violation('two steps that differ in what they execute/consume get the same Variant-Id: %r / %r -> %s'
                            % (ca, cb, da.hex()), sigstr(sa, sb, 'core-collision'),
                            {'a': repr(ca), 'b': repr(cb), 'digest_a': da.hex(), 'digest_b': db.hex()},
                            da == db and ca != cb)
            if len(Q.samples) < 3:
                Q.sample({'query': name, 'result': r})
    elif group == 'noninterference':
        run_noninterference(tier, Q, shapes, rnd)
    elif group == 'equivalence':
        run_equivalence(tier, Q, shapes, rnd)
    elif group == 'buildid-collision':
        run_buildid(tier, Q, rnd)
    else:
        raise V.HarnessGap('unknown group ' + group)


def run_noninterference(tier, Q, shapes, rnd):
    """id-irrelevant inputs do not reach the pre-image"""
    for s in shapes:
        inp, v = instantiate(s, 'x')
        with Recorder(BI, BIR):
            p0 = core_pre(build_core(s, inp))
            # dict insertion order of tools / env
            p1 = core_pre(build_core(s, inp, env_order=-1, tool_order=-1))
            # weak / undeclared variables live in env only, never in digestEnv
            w1, w2 = v.text('weak1'), v.text('weak2')
            if s.nenv != 'k':
                p2 = core_pre(build_core(s, inp, extra_env={'WEAK': w1}))
                p3 = core_pre(build_core(s, inp, extra_env={'WEAK': w2}))
            else:
                p2 = p3 = p0
        for nm, pa, pb in (('dict-order', p0, p1), ('weak-var', p2, p3), ('weak-var-vs-none', p0, p2)):
            r, model = Q.check('%s %r' % (nm, s), v.constraints + [z3.Not(preimage_equal(pa, pb))], 'unsat',
                               shape=(nm, s.key()))
            if r == 'sat':
                c = concretize(s, inp, model)
                Q.violation('Variant-Id depends on id-irrelevant input (%s): %r' % (nm, c), '%s|%s' % (nm, s.key()),
                            {'inputs': repr(c)}, True)
        if not s.fp:
            # a sandbox that is used by an un-fingerprinted step must not enter the id
            sb1, sb2 = v.digest('sbxA', 40), v.digest('sbxB', 40)
            with Recorder(BI, BIR):
                q1 = core_pre(build_core(s, inp, sandbox_unfp=sb1))
                q2 = core_pre(build_core(s, inp, sandbox_unfp=sb2))
            for nm, pa, pb in (('sandbox-image', q1, q2), ('sandbox-on-off', p0, q1)):
                r, model = Q.check('%s %r' % (nm, s), v.constraints + [z3.Not(preimage_equal(pa, pb))], 'unsat',
                                   shape=(nm, s.key()))
                if r == 'sat':
                    c = concretize(s, inp, model)
                    Q.violation('Variant-Id of an un-fingerprinted step depends on the sandbox (%s): %r' % (nm, c),
                                '%s|%s' % (nm, s.key()), {'inputs': repr(c)}, True)
        if s.toollen == 40:
            # only the recipe part (first 20 bytes) of a tool provider id is relevant
            inp2, v2 = instantiate(s, 'y')
            with Recorder(BI, BIR):
                pa = core_pre(build_core(s, inp))
                pb = core_pre(build_core(s, inp2))
            same_rel = z3.Not(rel_differ(s, inp, s, inp2))
            r, model = Q.check('tool-host-part %r' % (s,), v.constraints + v2.constraints +
                               [same_rel, z3.Not(preimage_equal(pa, pb))], 'unsat', shape=('toolhost', s.key()))
            if r == 'sat':
                ca, cb = concretize(s, inp, model), concretize(s, inp2, model)
                da, db = real_core_digest(s, ca), real_core_digest(s, cb)
                Q.violation('host/sandbox part of a tool provider id leaks into the Variant-Id: %r / %r' % (ca, cb),
                            'toolhost|%s' % (s.key(),), {'a': repr(ca), 'b': repr(cb)}, da != db)
    Q.sample({'kind': 'non-interference', 'shapes': len(shapes)})


def run_equivalence(tier, Q, shapes, rnd):
    """CoreStep.getDigest == StepIR.getDigestCoro (defaults) == frozen format specification"""
    tv = 0
    for s in shapes:
        tv += validate_translation(s, Q, rnd, 'ir')
        inp, v = instantiate(s, 'x')
        with Recorder(BI, BIR):
            pc = core_pre(build_core(s, inp))
            pi = ir_pre(build_ir(s, inp))
        ps = digest_spec.variant_preimage(s, inp)
        for nm, pa, pb in (('core-vs-ir', pc, pi), ('core-vs-spec', pc, ps)):
            r, model = Q.check('%s %r' % (nm, s), v.constraints + [z3.Not(preimage_equal(pa, pb))], 'unsat',
                               shape=(nm, s.key()))
            if r == 'sat':
                c = concretize(s, inp, model)
                d1 = real_core_digest(s, c)
                d2 = real_ir_digest(s, c) if nm == 'core-vs-ir' else digest_spec.variant_id_concrete(s, c)
                Q.violation('%s: ids differ for %r: %s vs %s' % (nm, c, d1.hex(), d2.hex()),
                            '%s|%s' % (nm, s.key()), {'inputs': repr(c)}, d1 != d2)
    Q.validation = {'shapes': len(shapes), 'concrete_vectors_agreeing': tv}
    Q.sample({'kind': 'equivalence', 'shapes': len(shapes)})


def run_buildid(tier, Q, rnd):
    """Build-Id pre-image (fingerprint, platform, relaxTools=True)"""
    shapes = [Shape(1, (), 0, ((True, 20),)), Shape(1, (1,), 1, ((True, 20),)), Shape(1, (1, 1), 0, ()),
              Shape(1, (1, 1), 0, (), weak=('ta',)), Shape(1, (0, 1), 0, ((True, 20),), weak=('ta',)),
              Shape(1, (2,), 2, ((True, 40),)), Shape(0, (), 0, ((True, 20), (True, 20)))]
    if tier != 'quick':
        shapes += [Shape(1, (1, 1), 1, ((True, 20),), weak=('tb',)), Shape(1, (2, 2), 0, ()),
                   Shape(1, (1,), 'k', ((True, 20),))]
    tv = 0
    for s in shapes:
        fpv = Vars('tvfp')
        tv += validate_translation(s, Q, rnd, 'ir', fingerprint=b'F' * 20, platform=b'linux', relaxTools=True)
    Q.validation = {'shapes': len(shapes), 'concrete_vectors_agreeing': tv}
    for (sa, sb) in [(s, s) for s in shapes] + ([] if tier == 'quick' else list(itertools.combinations(shapes, 2))):
        if sa.weak != sb.weak:
            continue
        ia, va = instantiate(sa, 'x')
        ib, vb = instantiate(sb, 'y')
        fa, fb = va.digest('fprint', 20), vb.digest('fprint', 20)
        pla, plb = va.text('platform', minlen=0, maxlen=3), vb.text('platform', minlen=0, maxlen=3)
        with Recorder(BI, BIR):
            pa = ir_pre(build_ir(sa, ia, weak=sa.weak), fingerprint=fa, platform=pla.encode(), relaxTools=True)
            pb = ir_pre(build_ir(sb, ib, weak=sb.weak), fingerprint=fb, platform=plb.encode(), relaxTools=True)
        reld = z3.Or(rel_differ(sa, ia, sb, ib), fa.term != fb.term, pla.term != plb.term)
        name = 'buildid-collision %r vs %r' % (sa, sb)
        r, model = Q.check(name, va.constraints + vb.constraints + [preimage_equal(pa, pb), reld], 'unsat',
                           shape=(sa.key(), sb.key()))
        if r == 'sat':
            ca, cb = concretize(sa, ia, model), concretize(sb, ib, model)
            kwa = dict(fingerprint=model_bytes(model, fa.term), platform=model_bytes(model, pla.term), relaxTools=True)
            kwb = dict(fingerprint=model_bytes(model, fb.term), platform=model_bytes(model, plb.term), relaxTools=True)
            da, db = real_ir_digest(sa, ca, **kwa), real_ir_digest(sb, cb, **kwb)
            Q.violation('different sources/scripts/variables/strong tools/fingerprint, same Build-Id: %r %r / %r %r -> %s'
                        % (ca, kwa, cb, kwb, da.hex()), sigstr(sa, sb, 'buildid-collision'),
                        {'a': repr(ca), 'b': repr(cb)}, da == db)
        # weak tools: the provider variant of a weakly used tool must not matter
        if sa is sb and sa.weak:
            inp2, v2 = instantiate(sa, 'z')
            with Recorder(BI, BIR):
                p1 = ir_pre(build_ir(sa, ia, weak=sa.weak), fingerprint=fa, platform=pla.encode(), relaxTools=True)
                p2 = ir_pre(build_ir(sa, inp2, weak=sa.weak), fingerprint=fa, platform=pla.encode(), relaxTools=True)
            same = z3.Not(rel_differ(sa, ia, sa, inp2))
            r, model = Q.check('weak-tool-variant %r' % (sa,), va.constraints + v2.constraints +
                               [same, z3.Not(preimage_equal(p1, p2))], 'unsat', shape=('weaktool', sa.key()))
            if r == 'sat':
                ca, cb = concretize(sa, ia, model), concretize(sa, inp2, model)
                Q.violation('Build-Id depends on the variant of a weakly used tool: %r / %r' % (ca, cb),
                            'weaktool|%s' % (sa.key(),), {'a': repr(ca), 'b': repr(cb)}, True)
    Q.sample({'kind': 'build-id', 'shapes': len(shapes)})
